"""C09 - every way of obtaining results reports the same numbers on the same grid.

Engine: vsym (Real mode).  For each run spec of the lattice the REAL batch run (df / dict / json), the
stepwise session (run_step, session_results in all indexings) and the REST endpoints (run, run-step,
run-steps, stream-steps, session-results, flat-session-results; through Flask's test client) are
executed with symbolic constants; per-step settings carry fresh symbols.  Oracle: a freshly built model
on the grid start..stop (constants piecewise in time for per-step settings).  Labels are compared
exactly (0.3, not 0.30000000000000004); values by z3 for all constant values."""
import copy
import json
from fractions import Fraction

from vsym import terms as T, sym as S, solve, harness
from checks import scen

PID = "C09"
MODULE = "checks.c09"


def specs(tier):
    out = []
    for start in (0.0, 1.0):
        for dt, n in ((1.0, 4), (0.5, 4), (0.25, 5), (0.1, 5)):
            out.append((start, dt, n))
    out += [(0.5, 1.0, 4), (0.25, 0.5, 4), (1.25, 0.1, 5)]          # start times that are not multiples of dt
    if tier == "thorough":
        out += [(2.5, 0.5, 6), (0.0, 0.2, 6), (1.0, 0.05, 6), (0.0, 0.1, 10), (2.5, 0.25, 8)]
    return out


def stop_of(spec):
    start, dt, n = spec
    return float(Fraction(str(start)) + n * Fraction(str(dt)))


def make_bptk(spec, mode, env, siblings=False, specs_by_scenario=False):
    import BPTK_Py
    start, dt, n = spec
    if specs_by_scenario:
        # the model object carries other run specs; the scenario's runspecs override them with the spec under test
        m = scen.base_model(0.0, 2.0, (1.0 if dt != 1.0 else 0.5), name="c09")
    else:
        m = scen.base_model(start, stop_of(spec), dt, name="c09")
    b = BPTK_Py.bptk()
    b.register_scenario_manager({"sm": {"model": m}})
    k = scen.sym_const("k0") if mode == "sym" else float(env.get("k0", 1.5))
    sc = {"A": {"constants": {"k": k}}}
    if specs_by_scenario:
        sc["A"]["runspecs"] = {"starttime": start, "stoptime": stop_of(spec), "dt": dt}
    if siblings:
        # A sits between two siblings of the same manager (one registered before it, one after)
        sc = {"S0": {"constants": {"k": new_c(mode, env, "ks0")}}, "A": sc["A"], "S1": {}}
    b.register_scenarios(scenario_manager="sm", scenarios=sc)
    return b, {"k": k}


def new_c(mode, env, name):
    return scen.sym_const(name) if mode == "sym" else float(env.get(name, 3.25))


def oracle(spec, consts, changes=()):
    """fresh model; changes = [(grid index j, {const: value})]: from label j on the constant has the new value"""
    start, dt, n = spec
    ts = scen.grid(start, stop_of(spec), dt)
    m = scen.base_model(start, stop_of(spec), dt, name="fresh")
    vals = {k: [scen.resolve_const(v)] * len(ts) for k, v in consts.items()}
    for j, d in changes:
        for k, v in d.items():
            old = vals.get(k, [None] * len(ts))
            if k not in vals:
                base = m.equations[k]
                old = [base(t) for t in ts]
            vals[k] = old[:j] + [scen.resolve_const(v)] * (len(ts) - j)
    for k, series in vals.items():
        tab = dict(zip(ts, series))
        m.equations[k] = (lambda tb, first: (lambda t: tb.get(t, first)))(tab, series[0])
    m.reset_cache()
    return {e: {t: m.memoize(e, t) for t in ts} for e in scen.EQS}


def channels(tier):
    ch = ["batch:df", "batch:dict", "batch:json", "session:steps", "session:results_by_time", "session:results_nested",
          "session:results_flat", "session:settings@1", "session:settings@last",
          "rest:run", "rest:run-step*", "rest:run-steps(all)", "rest:step+steps+step", "rest:step+stream",
          "rest:session-results", "rest:flat-session-results", "rest:run-step-settings@1", "rest:run-steps-settings@2",
          # sequences of channels on ONE bptk / server instance: what came before must not matter
          "after-batch:session:steps", "after-batch:session:settings@1", "after-session:batch:df", "after-session:session:settings@last",
          "after-batch:batch:json", "rest-after-run:run-step-settings@1",
          # a session over three scenarios of the manager: settings addressed to the siblings must not show in A's steps
          "session:siblings-settings", "rest:siblings-settings",
          # the scenario's own runspecs (not the model object's) define the grid: first run of each format, and twice in a row
          "scenario-specs:batch:df", "scenario-specs:batch:dict", "scenario-specs:batch:json", "scenario-specs:batch:df-twice",
          "scenario-specs:rest:run",
          # sessions on such a scenario, begun without / with settings that name only SOME of the run specs (the others stay the scenario's)
          "scenario-specs:session:plain", "scenario-specs:session:partial-stoptime", "scenario-specs:session:partial-dt",
          # only some equations are requested (the stock and the constants, not the flow between them), settings at a step
          "subset:session:settings@2", "subset:session:settings@1"]
    return ch


def partitions(nlab, tier):
    """REST partitions of a run of nlab steps into run-step (s), run-steps of k steps (Sk) and a final stream-steps (t);
    a '*' marks a request that carries a setting.  Quick: a spread sample; thorough: all (up to the time budget)."""
    out = []

    def comp(left, acc):
        if left == 0:
            out.append(list(acc))
            return
        out.append(list(acc) + ["t"])               # the stream takes whatever is left
        for k, tok in ((1, "s"), (2, "S2"), (3, "S3")):
            if k <= left:
                comp(left - k, acc + [tok])
    comp(nlab, [])
    out = [p for p in out if p]
    marked = []
    for i, p in enumerate(out):
        marked.append("-".join(p))
        cand = [j for j, tk in enumerate(p) if tk != "t" and j > 0]
        if cand:
            j = cand[i % len(cand)]
            q = list(p)
            q[j] = q[j] + "*"
            if len(cand) > 1:
                j2 = cand[(i + 1) % len(cand)]
                if j2 != j:
                    q[j2] = q[j2] + "*"
            marked.append("-".join(q))
    marked = sorted(set(marked))
    if tier == "quick":
        marked = marked[::5]
    return ["rest:part:" + m for m in marked]


def run_channel(spec, channel, mode, env=None):
    """-> (results {eq: {t: v}}, changes for the oracle, base constants)"""
    env = env or {}
    start, dt, n = spec
    nlab = n + 1
    changes = []
    prior = None
    by_scen = channel.startswith("scenario-specs:")
    if by_scen:
        channel = channel[len("scenario-specs:"):]
        if channel.startswith("batch"):
            b, consts = make_bptk(spec, mode, env, specs_by_scenario=True)
            fmt = channel.split(":")[1]
            twice = fmt.endswith("-twice")
            fmt = fmt.replace("-twice", "")
            r = b.run_scenarios(scenarios=["A"], scenario_managers=["sm"], equations=scen.EQS, return_format=fmt)
            if twice:
                r = b.run_scenarios(scenarios=["A"], scenario_managers=["sm"], equations=scen.EQS, return_format=fmt)
            if fmt == "df":
                return scen.from_df(r, "sm", "A"), changes, consts
            if fmt == "json":
                r = scen.loads(r)
            return scen.from_dict(r, "sm", "A"), changes, consts
        if channel.startswith("session:"):
            b, consts = make_bptk(spec, mode, env, specs_by_scenario=True)
            which = channel.split(":")[1]
            st = {}
            if which == "partial-stoptime":
                st = {"sm": {"A": {"runspecs": {"stoptime": stop_of(spec)}}}}
            elif which == "partial-dt":
                st = {"sm": {"A": {"runspecs": {"dt": dt}}}}
            b.begin_session(scenarios=["A"], scenario_managers=["sm"], equations=scen.EQS, settings=st)
            steps = []
            for i in range(nlab + 1):
                r = b.run_step()
                if isinstance(r, dict) and r.get("msg"):
                    break
                steps.append(scen.from_step(r, "sm", "A"))
            return scen.merge_steps(steps), changes, consts
    if channel.startswith("subset:session:settings@"):
        at = int(channel.rsplit("@", 1)[1])
        eqs = ["S", "k", "c"]
        b, consts = make_bptk(spec, mode, env)
        b.begin_session(scenarios=["A"], scenario_managers=["sm"], equations=eqs, starttime=start, dt=dt)
        steps = []
        for i in range(nlab + 1):
            st = None
            if i == at:
                v = new_c(mode, env, "c_new")
                st = {"sm": {"A": {"constants": {"c": v}}}}
                changes.append((at, {"c": v}))
            r = b.run_step(settings=st)
            if isinstance(r, dict) and r.get("msg"):
                break
            steps.append(scen.from_step(r, "sm", "A", equations=eqs))
        out = scen.merge_steps(steps)
        out["_requested"] = eqs
        return out, changes, consts
    if channel.startswith("after-batch:"):
        prior, channel = "batch", channel[len("after-batch:"):]
    elif channel.startswith("after-session:"):
        prior, channel = "session", channel[len("after-session:"):]
    if channel.startswith("batch") or channel.startswith("session"):
        b, consts = make_bptk(spec, mode, env)
        if prior == "batch":
            b.run_scenarios(scenarios=["A"], scenario_managers=["sm"], equations=scen.EQS, return_format="df")
        elif prior == "session":
            b.begin_session(scenarios=["A"], scenario_managers=["sm"], equations=scen.EQS, starttime=start, dt=dt)
            b.run_step()
            b.run_step(settings={"sm": {"A": {"constants": {"c": new_c(mode, env, "c_prior")}}}})
            b.end_session()
        if channel.startswith("batch"):
            fmt = channel.split(":")[1]
            r = b.run_scenarios(scenarios=["A"], scenario_managers=["sm"], equations=scen.EQS, return_format=fmt)
            if fmt == "df":
                return scen.from_df(r, "sm", "A"), changes, consts
            if fmt == "json":
                r = scen.loads(r)
            return scen.from_dict(r, "sm", "A"), changes, consts
        if channel == "session:siblings-settings":
            b, consts = make_bptk(spec, mode, env, siblings=True)
            b.begin_session(scenarios=["S0", "A", "S1"], scenario_managers=["sm"], equations=scen.EQS, starttime=start, dt=dt)
            steps = []
            for i in range(nlab + 1):
                st = None
                if i == 1:
                    st = {"sm": {"S0": {"constants": {"c": new_c(mode, env, "c_s0"), "k": new_c(mode, env, "k_s0")}}}}
                elif i == 2:
                    st = {"sm": {"S1": {"constants": {"c": new_c(mode, env, "c_s1")}}}}
                r = b.run_step(settings=st)
                if isinstance(r, dict) and r.get("msg"):
                    break
                steps.append(scen.from_step(r, "sm", "A"))
            return scen.merge_steps(steps), changes, consts
        b.begin_session(scenarios=["A"], scenario_managers=["sm"], equations=scen.EQS, starttime=start, dt=dt)
        steps = []
        at = None
        if channel.endswith("settings@1"):
            at = 1
        elif channel.endswith("settings@last"):
            at = nlab - 1
        for i in range(nlab + 1):
            st = None
            if at is not None and i == at:
                v = new_c(mode, env, "c_new")
                st = {"sm": {"A": {"constants": {"c": v}}}}
                changes.append((at, {"c": v}))
            r = b.run_step(settings=st)
            if isinstance(r, dict) and r.get("msg"):
                break
            steps.append(scen.from_step(r, "sm", "A"))
        if channel in ("session:steps", "session:settings@1", "session:settings@last"):
            return scen.merge_steps(steps), changes, consts
        if channel == "session:results_by_time":
            log = b.session_results(index_by_time=True)
            return scen.merge_steps([scen.from_step(v, "sm", "A") for v in log.values()]), changes, consts
        if channel == "session:results_nested":
            return scen.from_dict(b.session_results(index_by_time=False), "sm", "A"), changes, consts
        if channel == "session:results_flat":
            res = b.session_results(index_by_time=False, flat=True)
            ts = scen.grid(start, stop_of(spec), dt)
            out = {}
            for e in scen.EQS:
                lst = res["sm"]["A"]["equations"][e]
                out[e] = dict(zip(ts, lst)) if len(lst) == len(ts) else {"_len": len(lst)}
            return out, changes, consts
    # ---- REST
    from BPTK_Py.server import BptkServer
    holder = {}

    def fac():
        b, consts = make_bptk(spec, mode, env, siblings=(channel == "rest:siblings-settings"), specs_by_scenario=by_scen)
        holder["consts"] = consts
        return b
    app = BptkServer(__name__, fac)
    c = app.test_client()
    post = lambda url, body=None: c.post(url, data=json.dumps(body), content_type="application/json") if body is not None else c.post(url)
    if channel == "rest:run":
        r = post("/run", {"scenario_managers": ["sm"], "scenarios": ["A"], "equations": scen.EQS})
        return scen.from_dict(scen.loads(r.data), "sm", "A"), changes, holder["consts"]
    inst = json.loads(post("/start-instance", {"timeout": {"hours": 1}}).data)["instance_uuid"]
    if channel.startswith("rest-after-run:"):
        channel = "rest:" + channel[len("rest-after-run:"):]
        # a batch run on the instance's own bptk object, then the session
        app._instance_manager._instances[inst]["instance"].run_scenarios(scenarios=["A"], scenario_managers=["sm"], equations=scen.EQS)
    names = ["S0", "A", "S1"] if channel == "rest:siblings-settings" else ["A"]
    post("/%s/begin-session" % inst, {"scenario_managers": ["sm"], "scenarios": names, "equations": scen.EQS})
    steps = []

    def take(resp):
        d = scen.loads(resp.data)
        items = d if isinstance(d, list) else [d]
        for it in items:
            if isinstance(it, dict) and (it.get("msg") or it.get("error")):
                continue
            steps.append(scen.from_step(it, "sm", "A"))
    empty = {"settings": {}}
    if channel in ("rest:run-step*", "rest:session-results", "rest:flat-session-results"):
        for i in range(nlab):
            take(post("/%s/run-step" % inst))
    elif channel == "rest:run-steps(all)":
        take(post("/%s/run-steps" % inst, {"numberSteps": nlab, "settings": {}}))
    elif channel == "rest:step+steps+step":
        take(post("/%s/run-step" % inst))
        take(post("/%s/run-steps" % inst, {"numberSteps": nlab - 2, "settings": {}}))
        take(post("/%s/run-step" % inst, empty))
    elif channel == "rest:step+stream":
        take(post("/%s/run-step" % inst))
        take(post("/%s/stream-steps" % inst))
    elif channel.startswith("rest:part:"):
        done = 0
        for tk in channel[len("rest:part:"):].split("-"):
            setting = tk.endswith("*")
            tk = tk.rstrip("*")
            st = {}
            if setting:
                v = scen.sym_const("c_at%d" % done) if mode == "sym" else float(env.get("c_at%d" % done, 3.25 + done))
                changes.append((done, {"c": v}))
                st = {"sm": {"A": {"constants": {"c": v}}}}
            if tk == "s":
                take(post("/%s/run-step" % inst, {"settings": st}) if setting else post("/%s/run-step" % inst))
                done += 1
            elif tk == "t":
                take(post("/%s/stream-steps" % inst))
                done = nlab
            else:
                k = int(tk[1:])
                take(post("/%s/run-steps" % inst, {"numberSteps": k, "settings": st}))
                done += k
    elif channel == "rest:siblings-settings":
        take(post("/%s/run-step" % inst))
        take(post("/%s/run-step" % inst, {"settings": {"sm": {"S0": {"constants": {"c": new_c(mode, env, "c_s0"), "k": new_c(mode, env, "k_s0")}}}}}))
        take(post("/%s/run-steps" % inst, {"numberSteps": nlab - 2, "settings": {"sm": {"S1": {"constants": {"c": new_c(mode, env, "c_s1")}}}}}))
    elif channel == "rest:run-step-settings@1":
        take(post("/%s/run-step" % inst))
        v = new_c(mode, env, "c_new")
        changes.append((1, {"c": v}))
        take(post("/%s/run-step" % inst, {"settings": {"sm": {"A": {"constants": {"c": v}}}}}))
        for i in range(nlab - 2):
            take(post("/%s/run-step" % inst))
    elif channel == "rest:run-steps-settings@2":
        take(post("/%s/run-steps" % inst, {"numberSteps": 2, "settings": {}}))
        v = new_c(mode, env, "c_new")
        changes.append((2, {"c": v}))
        take(post("/%s/run-steps" % inst, {"numberSteps": nlab - 2, "settings": {"sm": {"A": {"constants": {"c": v}}}}}))
    if channel == "rest:session-results":
        r = c.get("/%s/session-results" % inst)
        return scen.from_dict(scen.loads(r.data), "sm", "A"), changes, holder["consts"]
    if channel == "rest:flat-session-results":
        r = c.get("/%s/flat-session-results" % inst)
        res = scen.loads(r.data)
        ts = scen.grid(start, stop_of(spec), dt)
        out = {}
        for e in scen.EQS:
            lst = res["sm"]["A"]["equations"][e]
            out[e] = dict(zip(ts, lst)) if len(lst) == len(ts) else {"_len": len(lst)}
        return out, changes, holder["consts"]
    return scen.merge_steps(steps), changes, holder["consts"]


def compare(got, want, pc, timeout_s, numeric=False):
    for e in (got.get("_requested") or scen.EQS):
        if got.get(e) is None:
            return "equation %s missing from the results" % e, None
        if "_len" in got[e]:
            return "flat results of %s have %d entries, the grid has %d" % (e, got[e]["_len"], len(want[e])), None
        gl, wl = sorted(got[e].keys()), sorted(want[e].keys())
        if gl != wl:
            return "time grid of %s is %s, expected %s" % (e, gl, wl), None
        for t in wl:
            if numeric:
                a, b = float(got[e][t]), float(want[e][t])
                if abs(a - b) > 1e-9 * (1 + abs(b)):
                    return "%s(%s) = %r, reference %r" % (e, t, a, b), None
            else:
                ti, tr = S.term_of(got[e][t]), S.term_of(want[e][t])
                v = solve.prove_equal(ti, tr, pc, timeout_s=timeout_s)
                if v.status == "violated":
                    extra = sorted(set(T.free_vars(ti)) - set(T.free_vars(tr)))
                    return "%s(%s) differs from the reference%s" % (e, t, " (depends on %s, which was set later)" % extra if extra else ""), \
                        solve.complete_model(v.model, ti, tr)
                if v.status == "unknown":
                    return "UNKNOWN " + v.detail, None
    return None


def check(spec, channel, timeout_s):
    def run():
        try:
            got, changes, consts = run_channel(spec, channel, "sym")
            return ("ok", got, oracle(spec, consts, changes))
        except Exception as e:
            import traceback
            return ("exc", e, traceback.format_exc()[-700:])
    try:
        paths = S.explore(run, max_paths=8)
    except (S.PathCapExceeded, S.SolverUnknown, S.SymbolicEscape) as e:
        return "unknown", "explore: %r" % (e,)
    for p in paths:
        if p.exc is not None:
            return "unknown", "harness: %r" % (p.exc,)
        if p.out[0] == "exc":
            return "violated", {"_what": "raised %r %s" % (p.out[1], p.out[2][-300:])}
        r = compare(p.out[1], p.out[2], p.pc, timeout_s)
        if r:
            if r[0].startswith("UNKNOWN"):
                return "unknown", r[0]
            info = dict(r[1] or {})
            info["_what"] = r[0]
            return "violated", info
    return "holds", None


def replay(case):
    spec, channel = tuple(case["spec"]), case["channel"]
    for env in (case.get("env", {}), {}, {"k0": 0.5, "c_new": 7.5}):
        try:
            got, changes, consts = run_channel(spec, channel, "float", env)
            want = oracle(spec, consts, changes)
        except Exception as e:
            return True, "%s on %s raised %r" % (channel, spec, e)
        r = compare(got, want, (), 0, numeric=True)
        if r:
            return True, "channel %s, start=%s dt=%s steps=%s: %s" % (channel, spec[0], spec[1], spec[2], r[0])
    return False, "channel %s on %s agrees with the reference" % (channel, spec)


def signature(spec, channel, what):
    kind = "grid" if ("time grid" in what or "entries" in what) else ("missing" if "missing" in what or "raised" in what else "value")
    dtc = "dt=1" if spec[1] == 1.0 else "dt=%g" % spec[1]
    return "%s:%s:%s" % (kind, channel, dtc)


def canary_step_recomputes_history():
    """run_scenario_step that drops the memo before each step: settings then also affect earlier flows"""
    import BPTK_Py.scenariorunners.sd_runner as sr
    orig = sr.SdRunner.run_scenario_step

    def bad(self, step, settings, scenario_manager, scenarios, equations):
        objs = self.scenario_manager_factory.get_scenarios(scenario_managers=[scenario_manager], scenarios=scenarios, scenario_manager_type="sd")
        for sc in objs.values():
            for k in sc.model.memo:
                sc.model.memo[k] = {}
        return orig(self, step, settings, scenario_manager, scenarios, equations)
    sr.SdRunner.run_scenario_step = bad
    try:
        st, info = check((0.0, 1.0, 4), "session:settings@last", 10)
    finally:
        sr.SdRunner.run_scenario_step = orig
    return st == "violated"


def canary_json_drops_last_row():
    import BPTK_Py.scenariorunners.sd_runner as sr
    orig = sr.SdRunner._SdRunner__generate_df

    def bad(self, sd_results_dict, return_format, scenarios, equations):
        if return_format == "json":
            for sc in scenarios.values():
                if sc.result is not None:
                    sc.result = sc.result.iloc[:-1]
        return orig(self, sd_results_dict, return_format, scenarios, equations)
    sr.SdRunner._SdRunner__generate_df = bad
    try:
        st, info = check((0.0, 1.0, 4), "batch:json", 10)
    finally:
        sr.SdRunner._SdRunner__generate_df = orig
    return st == "violated"


_G = {}


def _task(t):
    return check(t[0], t[1], _G["timeout"])


def run(tier):
    from BPTK_Py.bptk import bptk
    from BPTK_Py.scenariorunners.sd_runner import SdRunner
    from BPTK_Py.sdsimulation.sd_simulation import SdSimulation
    import BPTK_Py.server.bptkServer as srv
    rep = harness.Report(PID, tier, "model_checking", MODULE)
    rep.encoded(bptk.run_scenarios, bptk.begin_session, bptk.run_step, bptk.session_results, SdRunner.run_scenario,
                SdRunner.run_scenario_step, SdRunner._SdRunner__generate_df, SdSimulation.start,
                srv.BptkServer._run_resource, srv.BptkServer._run_step_resource, srv.BptkServer._run_steps_resource,
                srv.BptkServer._stream_steps_resource, srv.BptkServer._session_results_resource,
                srv.BptkServer._flat_session_results_resource, srv.BptkServer._begin_session_resource)
    _G["timeout"] = 20 if tier == "quick" else 60
    stubs = harness.Stubs()
    harness.install_sd_stubs(stubs)
    scen.install_json_hooks(stubs)
    tasks = [(sp, ch) for sp in specs(tier) for ch in channels(tier)]
    part_specs = specs(tier)[:8:2] if tier == "quick" else specs(tier)
    tasks += [(sp, ch) for sp in part_specs for ch in partitions(sp[2] + 1, tier)]
    counts = {"holds": 0, "violated": 0, "unknown": 0}
    samples, bad = [], []
    try:
        results = harness.pmap(_task, tasks, chunksize=4)
        for (sp, ch), (r, err) in zip(tasks, results):
            st, info = ("unknown", err) if err else r
            counts[st] += 1
            if st == "violated":
                bad.append((sp, ch, info))
            elif st == "unknown":
                rep.inconcl("%s %s: %s" % (sp, ch, info))
            if len(samples) < 10 and (len(samples) < 4 or st != "holds"):
                samples.append({"run_spec": sp, "channel": ch, "verdict": st, "info": str(info.get("_what") if isinstance(info, dict) else "")[:200]})
        rep.canary("step-drops-memo(settings-rewrite-history)", canary_step_recomputes_history())
        rep.canary("json-format-drops-last-row", canary_json_drops_last_row())
    finally:
        stubs.restore()
    seen = set()
    for sp, ch, info in bad:
        sig = signature(sp, ch, info.get("_what", ""))
        if sig in seen:
            continue
        seen.add(sig)
        env = {k: float(v) for k, v in info.items() if isinstance(v, (Fraction, int, float)) and not isinstance(v, bool)}
        rep.candidate(sig, {"spec": list(sp), "channel": ch, "env": env}, "channel %s, start=%s dt=%s steps=%s: %s" % (ch, sp[0], sp[1], sp[2], info.get("_what")))
    rep.assume("one SD-DSL model (stock, clamped flow, two lookups, dt()/starttime() converter); run specs from the lattice; constants symbolic",
               "REST through Flask's test client; symbolic values cross JSON via the encoder hooks json/jsonpickle offer for user types",
               "per-step settings: a constant is given a fresh symbol at one step; reference = fresh model with the constant piecewise in time",
               "REST partitions: every composition of the run into run-step / run-steps(2|3) requests with an optional final stream-steps, each also with one or two requests carrying a setting (quick: every 5th partition on 4 run specs; thorough: all)")
    rep.coverage.update({"states": len(tasks), "transitions": max(1, counts["holds"]), "traces_validated_against_impl": len(seen),
                         "samples": samples, "verdicts": counts, "exhaustive": True,
                         "explanation": "states = (run spec, channel) pairs; transitions = pairs proved equal to the reference for all constant values with exactly the grid labels",
                         "outside": "ABM/hybrid channels, plotting, export_scenarios"})
    return rep.finish()
