"""Harness-owned XMILE side: expression ASTs, rendering to XMILE text (with spelling variants), reference
semantics (XMILE precedence is the AST itself), .stmx document generation, compilation with the REAL
compile_xmile and loading of the generated module with the vsym stubs bound in its namespace.

AST:  ('id', leaf)  ('num', text)  ('bin', op, l, r)  op in + - * / ^ MOD      ('neg', x)  ('paren', x)
      ('if', cond, a, b)     cond: ('cmp', op, l, r) | ('and', c, c) | ('or', c, c) | ('not', ('cmp', ...))
      ('call', NAME, args...)    ('time',) ('dt',) ('starttime',) ('stoptime',) ('pi',)
"""
import importlib.util
import math
import os
import sys

from vsym import sym as S, terms as T

PREC = {"^": 8, "*": 6, "/": 6, "MOD": 6, "+": 5, "-": 5}
CMP = ["=", "<>", "<", "<=", ">", ">="]


# ------------------------------------------------------------------ rendering

class Style(object):
    def __init__(self, ws=" ", kw=str.upper, fn=str.upper, names=None, extra_parens=False):
        self.ws, self.kw, self.fn, self.names, self.extra_parens = ws, kw, fn, names or {}, extra_parens


def render(t, st, parent=0, right=False):
    k = t[0]
    w = st.ws
    if k == "id":
        s = st.names.get(t[1], t[1])
        return "(%s)" % s if st.extra_parens else s
    if k == "num":
        return t[1]
    if k in ("time", "dt", "starttime", "stoptime", "pi"):
        return st.kw(k)
    if k == "paren":
        return "(" + render(t[1], st) + ")"
    if k == "neg":
        s = "-" + render(t[1], st, 7)
        return "(%s)" % s if parent > 7 or (parent == 7) else s
    if k == "bin":
        op = t[1]
        p = PREC[op]
        if op == "^":
            l, r = render(t[2], st, p + 1), render(t[3], st, p, True)
        else:
            l, r = render(t[2], st, p), render(t[3], st, p + 1)
        if op == "MOD":
            wm = w if w.strip(" \t\n") == "" and w != "" else " "          # a keyword operator needs separating whitespace
            s = l + wm + st.kw(op) + wm + r
        else:
            s = l + w + op + w + r
        return "(%s)" % s if p < parent else s
    if k == "call":
        return st.fn(t[1]) + "(" + ("," + w).join(render(a, st) for a in t[2:]) + ")"
    if k == "if":
        s = "%s %s %s %s %s %s" % (st.kw("IF"), render_c(t[1], st), st.kw("THEN"), render(t[2], st, 1), st.kw("ELSE"), render(t[3], st, 1))
        return "(%s)" % s if parent > 0 else s
    raise ValueError(k)


def render_c(c, st, parent=0):
    k = c[0]
    if k == "cmp":
        return render(c[2], st, 5) + st.ws + c[1] + st.ws + render(c[3], st, 5)
    if k == "not":
        return st.kw("NOT") + "(" + render_c(c[1], st) + ")"
    if k in ("and", "or"):
        p = 2 if k == "and" else 1
        s = render_c(c[1], st, p) + " " + st.kw(k.upper()) + " " + render_c(c[2], st, p + (0 if k == "and" else 0))
        return "(%s)" % s if p < parent else s
    raise ValueError(k)


def show(t):
    return render(t, Style()) if t[0] != "cmp" else render_c(t, Style())


# ------------------------------------------------------------------ reference semantics

class Ctx(object):
    def __init__(self, leaf, t, dt, start, stop, mathx):
        self.leaf, self.t, self.dt, self.start, self.stop, self.mathx = leaf, t, dt, start, stop, mathx


def ev(t, c):
    k = t[0]
    if k == "id":
        return c.leaf(t[1])
    if k == "num":
        return float(t[1])
    if k == "time":
        return c.t
    if k == "dt":
        return c.dt
    if k == "starttime":
        return c.start
    if k == "stoptime":
        return c.stop
    if k == "pi":
        return math.pi
    if k == "paren":
        return ev(t[1], c)
    if k == "neg":
        return -ev(t[1], c)
    if k == "bin":
        a, b = ev(t[2], c), ev(t[3], c)
        op = t[1]
        if op == "+":
            return a + b
        if op == "-":
            return a - b
        if op == "*":
            return a * b
        if op == "/":
            return a / b
        if op == "^":
            return a ** b
        if op == "MOD":
            return a % b
    if k == "if":
        return ev(t[2], c) if evc(t[1], c) else ev(t[3], c)
    if k == "call":
        n = t[1]
        a = [ev(x, c) for x in t[2:]]
        if n == "MIN":
            return S.sym_min(*a)
        if n == "MAX":
            return S.sym_max(*a)
        if n == "ABS":
            return abs(a[0])
        if n == "SQRT":
            return a[0] ** 0.5
        if n == "EXP":
            return c.mathx.exp(a[0])
        if n == "LN":
            return c.mathx.log(a[0])
        if n == "LOG10":
            return c.mathx.log10(a[0])
        if n == "INT":
            return c.mathx.floor(a[0])
        if n == "ROUND":
            return round(a[0])
        if n == "SIN":
            return c.mathx.sin(a[0])
        if n == "COS":
            return c.mathx.cos(a[0])
        if n == "TAN":
            return c.mathx.tan(a[0])
        if n == "SAFEDIV":
            z = a[2] if len(a) > 2 else 0
            return z if a[1] == 0 else a[0] / a[1]
        if n == "STEP":
            return 0 if c.t < a[1] else a[0]
        raise ValueError(n)
    raise ValueError(k)


def evc(cnd, c):
    k = cnd[0]
    if k == "cmp":
        a, b = ev(cnd[2], c), ev(cnd[3], c)
        return {"=": a == b, "<>": a != b, "<": a < b, "<=": a <= b, ">": a > b, ">=": a >= b}[cnd[1]]
    if k == "not":
        return not evc(cnd[1], c)
    if k == "and":
        return evc(cnd[1], c) and evc(cnd[2], c)
    if k == "or":
        return evc(cnd[1], c) or evc(cnd[2], c)
    raise ValueError(k)


class MathX(object):
    """UF versions of the transcendental functions for symbolic arguments, real ones for floats;
    stands in for the names `math` and (partly) `np` in the generated module"""
    pi = math.pi
    e = math.e
    inf = math.inf
    nan = math.nan

    def _f(name, real):
        def f(self, x):
            if S.is_sym(x):
                return S.SymReal(T.uf(name, (S.lift(x),)))
            return real(x)
        return f
    exp = _f("exp", math.exp)
    log = _f("log", math.log)
    log10 = _f("log10", math.log10)
    floor = _f("floor", math.floor)              # "floor" is interpreted exactly by the solver (to_int)
    trunc = lambda self, x: S.sym_int(x) if S.is_sym(x) else math.trunc(x)
    sin = _f("sin", math.sin)
    cos = _f("cos", math.cos)
    tan = _f("tan", math.tan)
    sqrt = _f("sqrt", math.sqrt)

    def __getattr__(self, n):
        return getattr(math, n)


# ------------------------------------------------------------------ documents

HEADER = """<?xml version="1.0" encoding="utf-8"?>
<xmile version="1.0" xmlns="http://docs.oasis-open.org/xmile/ns/XMILE/v1.0" xmlns:isee="http://iseesystems.com/XMILE">
	<header><smile version="1.0" namespace="std, isee"/><name>%s</name><vendor>verif</vendor><product version="2.1" lang="en">Stella Architect</product></header>
	<sim_specs method="Euler" time_units="months"><start>%s</start><stop>%s</stop>%s</sim_specs>
	<model>
		<variables>
"""
FOOTER = """		</variables>
	</model>
</xmile>
"""


def xml_escape(s):
    return s.replace("&", "&amp;").replace("<", "&lt;").replace(">", "&gt;").replace('"', "&quot;")


def document(name, start, stop, dt_xml, variables):
    """variables: list of xml snippets"""
    return HEADER % (name, start, stop, dt_xml) + "".join(variables) + FOOTER


def aux(name, eqn, gf=None):
    g = ""
    if gf:
        xs, ys = gf
        if len(xs) > 2:
            g = "<gf><xpts>%s</xpts><yscale min=\"0\" max=\"100\"/><ypts>%s</ypts></gf>" % (",".join(str(x) for x in xs), ",".join(str(y) for y in ys))
        else:
            g = "<gf><xscale min=\"%s\" max=\"%s\"/><yscale min=\"0\" max=\"100\"/><ypts>%s</ypts></gf>" % (xs[0], xs[1], ",".join(str(y) for y in ys))
    return "\t\t\t<aux name=\"%s\"><eqn>%s</eqn>%s</aux>\n" % (xml_escape(name), xml_escape(eqn), g)


def stock(name, init, inflows, outflows, non_negative=False):
    return "\t\t\t<stock name=\"%s\"><eqn>%s</eqn>%s%s%s</stock>\n" % (
        xml_escape(name), xml_escape(init), "".join("<inflow>%s</inflow>" % xml_escape(f) for f in inflows),
        "".join("<outflow>%s</outflow>" % xml_escape(f) for f in outflows), "<non_negative/>" if non_negative else "")


def flow(name, eqn, non_negative=True):
    return "\t\t\t<flow name=\"%s\"><eqn>%s</eqn>%s</flow>\n" % (xml_escape(name), xml_escape(eqn), "<non_negative/>" if non_negative else "")


_counter = [0]


def compile_doc(text, scratch, stubs=True):
    """REAL compile_xmile -> generated module object (not instantiated)"""
    from BPTK_Py.sdcompiler.compile import compile_xmile
    _counter[0] += 1
    base = os.path.join(scratch, "xm_%d_%d" % (os.getpid(), _counter[0]))
    with open(base + ".stmx", "w", encoding="utf-8") as f:
        f.write(text)
    compile_xmile(base + ".stmx", base + ".py", "py")
    spec = importlib.util.spec_from_file_location(os.path.basename(base), base + ".py")
    mod = importlib.util.module_from_spec(spec)
    spec.loader.exec_module(mod)
    if stubs:
        bind_stubs(mod)
    for ext in (".stmx",):
        try:
            os.remove(base + ext)
        except OSError:
            pass
    return mod


def bind_stubs(mod):
    """names the generated code resolves in its own module namespace"""
    mx = MathX()
    mod.__dict__["max"] = S.sym_max
    mod.__dict__["min"] = S.sym_min
    mod.__dict__["sum"] = S.sym_sum
    mod.__dict__["math"] = mx
    npx = S.NpProxy()
    npx.log = mx.log.__get__(mx)
    npx.log10 = mx.log10.__get__(mx)
    mod.__dict__["np"] = npx
    mod.__dict__["random"] = S.RandomStub("random")
    # LERP stays the real generated code; only the names it resolves are stubbed
    mod.__dict__["interp1d"] = S._Interp1d
    mod.__dict__["float"] = S.sym_float
    mod.__dict__["int"] = S.sym_int
    return mx


STUB_NAMES = ["<generated module>.max", "<generated module>.min", "<generated module>.sum", "<generated module>.math",
              "<generated module>.np", "<generated module>.random", "<generated module>.interp1d", "<generated module>.float", "<generated module>.int"]


def find_keys(model, probes, t):
    """identify the equation keys of leaves by their unique probe constants (no copy of the sanitiser);
    only equations that are plain constants qualify (their evaluation does not consult any other equation)"""
    out = {}
    calls = [0]
    orig = model.memoize

    def counting(equation, arg):
        calls[0] += 1
        return orig(equation, arg)
    model.memoize = counting
    try:
        for key, fn in model.equations.items():
            calls[0] = 0
            try:
                v = fn(t)
            except Exception:
                continue
            if calls[0]:
                continue
            if isinstance(v, (int, float)) and not isinstance(v, bool):
                for leaf, pv in probes.items():
                    if v == pv and leaf not in out:
                        out[leaf] = key
    finally:
        del model.memoize
    for k_ in model.memo:
        model.memo[k_] = {}
    return out
