"""C17 - an instance lives exactly as long as its timeout since last access allows.

Engine: vsym with a SYMBOLIC CLOCK.  `datetime` as seen by BPTK_Py.server.bptkServer is a stub whose
now() returns the instant of the current event (sum of symbolic non-negative gaps) and whose timedelta(**kw)
returns the symbolic number of seconds.  The REAL InstanceManager (create / get / keep-alive / sweep /
both metrics / is_valid) and BptkServer._ensure_instance_exists run on timelines of events; each sweep
comparison `now >= last + timeout` is a fork the solver prunes.  Oracle: a reference automaton owned by
the harness.  A violating path yields concrete gaps/timeouts, replayed with a concrete fake clock."""
import itertools
from fractions import Fraction

from vsym import terms as T, sym as S, solve, harness

PID = "C17"
MODULE = "checks.c17"
UNITS = {"weeks": 604800.0, "days": 86400.0, "hours": 3600.0, "minutes": 60.0, "seconds": 1.0, "milliseconds": 0.001,
         "microseconds": 0.000001}
EVENTS = ["create", "access", "keepalive", "metrics", "fullmetrics", "ensure"]


class FakeBptk(object):
    count = 0

    def __init__(self):
        FakeBptk.count += 1
        self.n = FakeBptk.count
        self.destroyed = 0
        self.session_state = {"step": 0.0, "lock": False, "settings_log": {}, "results_log": {}}

    def destroy(self):
        self.destroyed += 1

    def _set_state(self, st):
        self.session_state = st


def _sec(x):
    return x.s if isinstance(x, (SymDelta, SymInstant)) else x


class SymDelta(object):
    """datetime.timedelta over a symbolic number of seconds (the attributes the real class offers)"""

    def __init__(self, s):
        self.s = s
        self._parts = None

    def total_seconds(self):
        return self.s

    def _split(self):
        # timedelta normal form: s = days*86400 + seconds + microseconds/1e6, 0 <= seconds < 86400, 0 <= microseconds < 1e6
        if self._parts is None:
            if not S.is_sym(self.s):
                import datetime as _d
                td = _d.timedelta(seconds=self.s)
                self._parts = (td.days, td.seconds, td.microseconds)
            else:
                d, x, u = S.fresh("days", True), S.fresh("secs", True), S.fresh("frac")
                S.assume(self.s == d * 86400.0 + x + u)
                S.assume(x >= 0.0)
                S.assume(x <= 86399.0)
                S.assume(u >= 0.0)
                S.assume(u < 1.0)
                self._parts = (d, x, u * 1000000.0)
        return self._parts

    days = property(lambda self: self._split()[0])
    seconds = property(lambda self: self._split()[1])
    microseconds = property(lambda self: self._split()[2])

    def __add__(self, o):
        if isinstance(o, SymInstant):
            return SymInstant(self.s + o.s)
        if isinstance(o, SymDelta):
            return SymDelta(self.s + o.s)
        return NotImplemented
    __radd__ = __add__

    def __sub__(self, o):
        return SymDelta(self.s - o.s) if isinstance(o, SymDelta) else NotImplemented

    def __neg__(self):
        return SymDelta(-self.s)

    def __abs__(self):
        return SymDelta(abs(self.s))

    def __mul__(self, k):
        return SymDelta(self.s * k)
    __rmul__ = __mul__

    def __truediv__(self, o):
        return self.s / o.s if isinstance(o, SymDelta) else SymDelta(self.s / o)

    def __bool__(self):
        return bool(self.s != 0.0)

    def __lt__(self, o): return self.s < o.s
    def __le__(self, o): return self.s <= o.s
    def __gt__(self, o): return self.s > o.s
    def __ge__(self, o): return self.s >= o.s
    def __eq__(self, o): return isinstance(o, SymDelta) and self.s == o.s
    def __ne__(self, o): return not isinstance(o, SymDelta) or self.s != o.s
    __hash__ = object.__hash__

    def __repr__(self):
        return "delta(%r s)" % (self.s,)


class SymInstant(object):
    """datetime.datetime as seconds since an arbitrary origin"""

    def __init__(self, s):
        self.s = s

    def __add__(self, o):
        return SymInstant(self.s + o.s) if isinstance(o, SymDelta) else NotImplemented
    __radd__ = __add__

    def __sub__(self, o):
        if isinstance(o, SymDelta):
            return SymInstant(self.s - o.s)
        if isinstance(o, SymInstant):
            return SymDelta(self.s - o.s)
        return NotImplemented

    def timestamp(self):
        return self.s

    def isoformat(self, *a, **k):
        return "instant"

    def replace(self, **kw):
        """datetime.replace: only truncation to whole seconds is modelled (origin is a whole second)"""
        if kw == {"microsecond": 0}:
            if not S.is_sym(self.s):
                import math
                return SymInstant(float(math.floor(self.s)))
            whole, frac = S.fresh("whole", True), S.fresh("frac")
            S.assume(self.s == whole + frac)
            S.assume(frac >= 0.0)
            S.assume(frac < 1.0)
            return SymInstant(whole)
        raise S.SymbolicEscape("datetime.replace(%s) is not modelled by the clock stub" % sorted(kw))

    def __bool__(self):
        return True

    def __lt__(self, o): return self.s < o.s
    def __le__(self, o): return self.s <= o.s
    def __gt__(self, o): return self.s > o.s
    def __ge__(self, o): return self.s >= o.s
    def __eq__(self, o): return isinstance(o, SymInstant) and self.s == o.s
    def __ne__(self, o): return not isinstance(o, SymInstant) or self.s != o.s
    __hash__ = object.__hash__

    def __repr__(self):
        return "instant(%r s)" % (self.s,)


class Clock(object):
    """mode 'sym': the stub module hands out SymInstant/SymDelta; mode 'float': the REAL datetime module with only
    datetime.now() replaced, so a replay exercises the real timedelta arithmetic"""

    def __init__(self, mode="sym"):
        self.mode = mode
        self.now_value = None

    def origin(self):
        if self.mode == "sym":
            return SymInstant(1000.0)
        import datetime as _d
        return _d.datetime(2024, 1, 1, 12, 0, 0)

    def delta(self, unit, amount):
        if self.mode == "sym":
            return SymDelta(amount * UNITS[unit])
        import datetime as _d
        return _d.timedelta(**{unit: amount})

    def install(self, stubs):
        clock = self
        import datetime as _real
        if self.mode == "sym":
            class _dt(object):
                @staticmethod
                def now(tz=None):
                    return clock.now_value

            class _mod(object):
                datetime = _dt

                @staticmethod
                def timedelta(**kw):
                    tot = 0.0
                    for u, f in UNITS.items():
                        if u in kw and not (isinstance(kw[u], (int, float)) and kw[u] == 0):
                            tot = tot + kw[u] * f
                    return SymDelta(tot)
        else:
            class _dt(_real.datetime):
                @classmethod
                def now(cls, tz=None):
                    return clock.now_value

            class _mod(object):
                datetime = _dt
                timedelta = _real.timedelta
                date, time, timezone = _real.date, _real.time, _real.timezone
        stubs.set("BPTK_Py.server.bptkServer", "datetime", _mod)


class Adapter(object):
    """stub external state adapter: holds what was saved"""

    def __init__(self):
        self.saved = {}

    def load_instance(self, uid):
        return self.saved.get(uid)

    def load_state(self):
        return list(self.saved.values())

    def save_instance(self, st):
        self.saved[st.instance_id] = st

    def delete_instance(self, uid):
        self.saved.pop(uid, None)


def timelines(tier):
    """list of event lists; event = (kind, instance index or unit index)"""
    n = 4 if tier == "quick" else 6
    out = []
    kinds = [("access", 0), ("access", 1), ("keepalive", 0), ("keepalive", 1), ("metrics", 0), ("fullmetrics", 0),
             ("create", 1), ("ensure", 0)]
    # every timeline starts by creating instance 0 (unit chosen per timeline), then up to n-1 further events
    units = list(UNITS)
    idx = 0
    for L in range(1, n):
        for seq in itertools.product(kinds, repeat=L):
            if sum(1 for k, _ in seq if k == "create") > 1:
                continue
            if any(i == 1 for k, i in seq if k in ("access", "keepalive")) and not any(k == "create" for k, _ in seq):
                continue
            # instance 1 may only be used after it was created
            ok, made = True, False
            for k, i in seq:
                if k == "create":
                    made = True
                elif i == 1 and not made:
                    ok = False
            if not ok:
                continue
            out.append((units[idx % 7], units[(idx // 7 + 3) % 7], list(seq)))
            idx += 1
    # instances created through the REST endpoints with a partial timeout dict (one unit, amount 2): the timeout the
    # instance gets must be the requested one (start-instance for instance 0, start-instances for instance 1)
    rest = []
    for j, (u0, u1, seq) in enumerate([t for t in out if len(t[2]) <= 2]):
        rest.append((units[j % 7], units[(j + 2) % 7], seq, "rest"))
    return out + rest


def run_timeline(tl, mode, env=None):
    """executes the timeline on the real InstanceManager with the stub clock; returns a list of
    (event, observation, reference observation)"""
    import BPTK_Py.server.bptkServer as srv
    from BPTK_Py.externalstateadapter import InstanceState
    unit0, unit1, events = tl[0], tl[1], tl[2]
    via_rest = len(tl) > 3 and tl[3] == "rest"
    env = env or {}
    stubs = harness.Stubs()
    clock = Clock(mode)
    clock.install(stubs)
    try:
        def val(name, default):
            if mode == "sym":
                return S.v(name)
            return float(env.get(name, default))
        made = []
        adapter = Adapter()
        app = srv.BptkServer.__new__(srv.BptkServer)
        im = srv.InstanceManager(lambda: made.append(FakeBptk()) or made[-1])
        app._instance_manager = im
        app._external_state_adapter = adapter
        app._bearer_token = None
        ref = {}          # index -> dict(last, tau, alive, uid, bptk, externalised)
        out = []
        now = clock.origin()
        amounts = {0: val("a0", 2.0), 1: val("a1", 3.0)}
        client = None
        if via_rest:
            # the real Flask routes; the timeout amounts are concrete (2 of the unit), the gaps stay symbolic
            amounts = {0: 2, 1: 2}
            app = srv.BptkServer(__name__, lambda: made.append(FakeBptk()) or made[-1], adapter)
            im = app._instance_manager
            client = app.test_client()
        pos = []
        for i in (0, 1):
            if mode == "sym":
                pos.append(T.cmp("gt", S.term_of(amounts[i]), T.ZERO))

        def sweep(t):
            for j, r in ref.items():
                if r["alive"] and t >= r["last"] + r["tau"]:
                    r["alive"] = False
                    r["destroyed"] += 1

        def create(i, unit, t):
            sweep(t)
            before = set(im._instances.keys())
            if client is not None:
                import json as _json
                if i == 0:
                    r_ = client.post("/start-instance", data=_json.dumps({"timeout": {unit: amounts[i]}}), content_type="application/json")
                    uid = _json.loads(r_.data)["instance_uuid"]
                else:
                    r_ = client.post("/start-instances", data=_json.dumps({"timeout": {unit: amounts[i]}, "instances": 1}), content_type="application/json")
                    uid = _json.loads(r_.data)["instance_uuids"][0]
            else:
                uid = im.create_instance(**{unit: amounts[i]})
            ref[i] = {"last": t, "tau": clock.delta(unit, amounts[i]), "alive": True, "uid": uid, "destroyed": 0,
                      "bptk": im._instances[uid]["instance"]}
            if i == 0:
                # instance 0's state is externalised (as the run-step handlers do after every step)
                adapter.save_instance(InstanceState({"step": 0.0, "lock": False}, uid, t, {unit: amounts[i]}, 0.0))
        clock.now_value = now
        create(0, unit0, now)
        gaps = []
        for n, (kind, i) in enumerate(events):
            d = val("d%d" % n, 1.0)
            if mode == "sym":
                pos.append(T.cmp("ge", S.term_of(d), T.ZERO))
            now = now + clock.delta("seconds", d)
            clock.now_value = now
            obs, exp = {}, {}
            if kind == "create":
                create(1, unit1, now)
            elif kind == "access":
                r = ref[i]
                got = im.get_instance(r["uid"])
                obs["served"] = got is not None
                if r["alive"]:
                    r["last"] = now
                    exp["served"] = True
                    sweep(now)
                else:
                    exp["served"] = False
            elif kind == "keepalive":
                r = ref[i]
                if im.is_valid_instance(r["uid"]):
                    im.keep_instance_alive(r["uid"])
                    obs["served"] = True
                else:
                    obs["served"] = False
                if r["alive"]:
                    r["last"] = now
                    exp["served"] = True
                    sweep(now)
                else:
                    exp["served"] = False
            elif kind == "metrics":
                txt = im._get_prometheus_instance_metrics()
                sweep(now)
                obs["count"] = int([ln for ln in txt.splitlines() if ln.startswith("bptk_instance_count ")][0].split(" ")[1])
                exp["count"] = sum(1 for r in ref.values() if r["alive"])
            elif kind == "fullmetrics":
                mt = im._get_instance_metrics()
                sweep(now)
                obs["ids"] = sorted(k for k in mt if k not in ("instanceCount", "threadCount"))
                exp["ids"] = sorted(r["uid"] for r in ref.values() if r["alive"])
                obs["count"] = mt["instanceCount"]
                exp["count"] = len(exp["ids"])
            elif kind == "ensure":
                # a request to instance 0 whose state is externalised: transparent restore when it is gone
                r = ref[0]
                ok = app._ensure_instance_exists(r["uid"])
                obs["exists"] = bool(ok)
                exp["exists"] = True
                if not r["alive"]:
                    r["alive"], r["last"] = True, now          # reconstructed with time = now (adapter contract)
                    r["restored"] = True
                    if ok:
                        r["bptk"], r["destroyed"] = im._instances[r["uid"]]["instance"], 0     # a new bptk object was made
                        im._instances[r["uid"]]["time"] = clock.now_value if im._instances[r["uid"]]["time"] is None else im._instances[r["uid"]]["time"]
                        r["last"] = im._instances[r["uid"]]["time"]
            # invariants after every event
            obs["valid"] = sorted(k for k in im._instances.keys())
            exp["valid"] = sorted(r["uid"] for r in ref.values() if r["alive"])
            obs["destroyed"] = [ref[j]["bptk"].destroyed for j in sorted(ref)]
            exp["destroyed"] = [ref[j]["destroyed"] for j in sorted(ref)]
            out.append(((kind, i), obs, exp))
        return out, pos
    finally:
        stubs.restore()


def first_mismatch(res):
    for n, (ev, obs, exp) in enumerate(res):
        for k in exp:
            if obs.get(k) != exp[k]:
                return n, ev, k, obs.get(k), exp[k]
    return None


def _model(pc, timeout_s):
    """a model of the path; whole-number gaps and timeouts are preferred (exact in datetime.timedelta, which
    rounds to microseconds), any model otherwise"""
    names = sorted(set(n for t in pc for n in T.free_vars(t) if not n.startswith(("int$", "aux$"))))
    whole = [T.cmp("eq", T.var(n), T.var("int$whole$" + n)) for n in names]
    r, m = solve.check(list(pc) + whole, timeout_s)
    if r == "sat":
        return r, m
    return solve.check(list(pc), timeout_s)


def check_timeline(tl, timeout_s):
    holder = {}

    def run():
        try:
            res, pos = run_timeline(tl, "sym")
            holder["pos"] = pos
            return ("ok", res)
        except Exception as e:
            import traceback
            return ("exc", e, traceback.format_exc()[-500:])
    unit0, unit1, events = tl[0], tl[1], tl[2]
    assumptions = [T.cmp("gt", T.var("a0"), T.ZERO), T.cmp("gt", T.var("a1"), T.ZERO)] + \
                  [T.cmp("ge", T.var("d%d" % n), T.ZERO) for n in range(len(events))]
    try:
        paths = S.explore(run, max_paths=400, assumptions=assumptions)
    except (S.PathCapExceeded, S.SolverUnknown, S.SymbolicEscape) as e:
        return "unknown", "explore: %r" % (e,), 0
    for p in paths:
        if p.exc is not None:
            return "unknown", "harness: %r" % (p.exc,), len(paths)
        if p.out[0] == "exc":
            r, m = _model(p.pc, timeout_s)
            return "violated", dict(solve.complete_model(m, *p.pc) if m else {}, _what="raised %r" % (p.out[1],)), len(paths)
        mm = first_mismatch(p.out[1])
        if mm:
            r, m = _model(p.pc, timeout_s)
            if r != "sat":
                continue
            info = solve.complete_model(m, *p.pc)
            info["_what"] = "event %d %s: %s is %r, reference automaton says %r" % mm
            info["_key"] = mm[2]
            info["_event"] = mm[1][0]
            return "violated", info, len(paths)
    return "holds", None, len(paths)


def replay(case):
    tl = (case["tl"][0], case["tl"][1], [tuple(e) for e in case["tl"][2]]) + tuple(case["tl"][3:])
    envs = [case.get("env", {})]
    for env in envs:
        res, _ = run_timeline(tl, "float", env)
        mm = first_mismatch(res)
        if mm:
            return True, "timeline %s with %s: event %d %s: %s is %r, expected %r" % ((tl, env) + mm)
    return False, "timeline %s: instance lifetimes match the reference" % (tl,)


def canary_strict_comparison():
    """sweep uses > instead of >= (an instance idle for exactly its timeout survives)"""
    import BPTK_Py.server.bptkServer as srv
    import inspect
    import textwrap
    src = textwrap.dedent(inspect.getsource(srv.InstanceManager._timeout_instances)).replace("current_time >= last_call_time + timeout", "current_time > last_call_time + timeout")
    orig = srv.InstanceManager._timeout_instances
    ns = {}
    exec(src, srv.__dict__, ns)
    srv.InstanceManager._timeout_instances = ns["_timeout_instances"]
    try:
        st, info, _ = check_timeline(("seconds", "hours", [("metrics", 0), ("access", 0)]), 10)
    finally:
        srv.InstanceManager._timeout_instances = orig
    return st == "violated"


def canary_keepalive_no_refresh():
    import BPTK_Py.server.bptkServer as srv
    orig = srv.InstanceManager.keep_instance_alive

    def bad(self, uid):
        self._timeout_instances()
        return None
    srv.InstanceManager.keep_instance_alive = bad
    try:
        st, info, _ = check_timeline(("minutes", "hours", [("keepalive", 0), ("metrics", 0), ("access", 0)]), 10)
    finally:
        srv.InstanceManager.keep_instance_alive = orig
    return st == "violated"


_G = {}


def _task(tl):
    return check_timeline(tl, _G["timeout"])


def run(tier):
    import BPTK_Py.server.bptkServer as srv
    rep = harness.Report(PID, tier, "model_checking", MODULE)
    im = srv.InstanceManager
    rep.encoded(im.create_instance, im.get_instance, im.keep_instance_alive, im._update_instance_timestamp, im._timeout_instances,
                im._get_instance_metrics, im._get_prometheus_instance_metrics, im.is_valid_instance, im.reconstruct_instance,
                srv.BptkServer._ensure_instance_exists)
    _G["timeout"] = 20 if tier == "quick" else 60
    tls = timelines(tier)
    counts = {"holds": 0, "violated": 0, "unknown": 0}
    samples, bad, paths_total = [], [], 0
    results = harness.pmap(_task, tls, chunksize=8)
    for tl, (r, err) in zip(tls, results):
        st, info, np_ = ("unknown", err, 0) if err else r
        counts[st] += 1
        paths_total += np_
        if st == "violated":
            bad.append((tl, info))
        elif st == "unknown":
            rep.inconcl("timeline %s: %s" % (tl, info))
        if len(samples) < 6 and (len(tl[2]) >= 3 or st != "holds" or len(tl) > 3):
            samples.append({"timeline": tl, "verdict": st, "paths": np_})
    rep.canary("sweep-uses-strict-comparison", canary_strict_comparison())
    rep.canary("keep-alive-does-not-refresh", canary_keepalive_no_refresh())
    seen = set()
    for tl, info in sorted(bad, key=lambda x: len(x[0][2])):
        sig = "lifetime:%s:%s" % (info.get("_event", "exc"), info.get("_key", "raised"))
        if sig in seen:
            continue
        seen.add(sig)
        env = {k: float(v) for k, v in info.items() if isinstance(v, (Fraction, int, float)) and not isinstance(v, bool)}
        rep.candidate(sig, {"tl": [tl[0], tl[1], [list(e) for e in tl[2]]] + list(tl[3:]), "env": env}, "timeline %s: %s" % (tl, info.get("_what")))
    rep.assume("clock stub: all now() calls within one event return the event's instant; instants non-decreasing (gaps >= 0 symbolic reals)",
               "timeouts: one unit per instance (every unit covered across timelines), amount > 0 symbolic; datetime/timedelta stub: instants and durations over symbolic real seconds with the attributes of the real classes (days/seconds/microseconds through integer auxiliaries; microsecond rounding outside); replays run on the real datetime module with only now() replaced",
               "bptk factory is a stub recording destroy(); adapter stub holds instance 0's state",
               "an access to an expired but not yet swept instance refreshes it (the statement fixes the fate only after a sweep)")
    rep.coverage.update({"states": len(tls), "transitions": max(1, paths_total), "traces_validated_against_impl": len(seen),
                         "samples": samples, "verdicts": counts, "exhaustive": True,
                         "explanation": "states = event timelines; transitions = feasible paths (orderings of instants against deadlines) explored by the solver-pruned executor",
                         "outside": "real-time cross-check (sleeping is not solver work), clock going backwards, instants changing within one request"})
    return rep.finish()
