"""C08 part C: Model.memoize under all schedules of two worker threads (source-line granularity).

Extraction (AST of the real Model.memoize, every run): the memo CHECK (membership test), the return on a
hit, the COMPUTE (call through self.equations[...]), the STORE (subscript assignment into the memo) and
any enclosing `with <lock>:` block.  Threads: T1 evaluates X(t) (stochastic), T2 evaluates Y(t) = f(X(t)),
which calls memoize('X') from inside its compute.  z3 chooses integer timestamps for every operation
(= the schedule) and fresh reals for the draws; the negated property is: the value reported for X, the
value Y consumed and the final memo content are not all the same.  A satisfying schedule is forced on the
REAL Model with two real threads by the settrace enforcer and reported only if the real values differ."""
import ast
import inspect
import textwrap

from vsym import harness
import schedbmc


def extract():
    """-> dict(check, hit_return, compute, store: line numbers (absolute); locked: bool; order ok)"""
    from BPTK_Py import Model
    src, first = inspect.getsourcelines(Model.memoize)
    tree = ast.parse(textwrap.dedent("".join(src))).body[0]
    info = {"locked": False, "lock_lines": []}

    def lineno(n):
        return first + n.lineno - 1

    def visit(stmts, locked):
        for st in stmts:
            if isinstance(st, ast.With):
                names = " ".join(ast.unparse(i.context_expr) for i in st.items)
                if "lock" in names.lower():
                    info["lock_lines"].append(lineno(st))
                    visit(st.body, True)
                    continue
                visit(st.body, locked)
            elif isinstance(st, ast.If):
                test = ast.unparse(st.test)
                if " in " in test and "memo" in test:
                    info["check"] = lineno(st)
                    info["check_locked"] = locked
                    for s2 in st.body:
                        if isinstance(s2, ast.Return):
                            info["hit_return"] = lineno(s2)
                    visit(st.orelse, locked)
                else:
                    visit(st.body, locked)
                    visit(st.orelse, locked)
            elif isinstance(st, ast.Try):
                visit(st.body, locked)
                for h in st.handlers:
                    visit(h.body, locked)
                visit(st.finalbody, locked)
            elif isinstance(st, ast.Assign):
                tgt, val = ast.unparse(st.targets[0]), ast.unparse(st.value)
                if "self.equations[" in val and "(" in val:
                    info["compute"] = lineno(st)
                    info["compute_locked"] = locked
                elif isinstance(st.targets[0], ast.Subscript) and "memo" in tgt and "self.memo[equation] = {}" not in ast.unparse(st):
                    info["store"] = lineno(st)
                    info["store_locked"] = locked
            elif isinstance(st, ast.Return):
                info.setdefault("final_return", lineno(st))
    visit(tree.body, False)
    for k in ("check", "compute", "store"):
        if k not in info:
            raise ValueError("Model.memoize: %s statement not recognised" % k)
    if not (info["check"] < info["compute"] < info["store"]):
        raise ValueError("Model.memoize: unexpected statement order %r" % info)
    info["locked"] = bool(info.get("check_locked") and info.get("compute_locked") and info.get("store_locked"))
    info["partially_locked"] = (not info["locked"]) and any(info.get(k) for k in ("check_locked", "compute_locked", "store_locked"))
    return info


def bmc(info, want_violation=True):
    """z3 query over schedules.  Operations:
       T1: c1 (check X), [m1 compute X -> r1, s1 store X]           reported X = hit ? value read : r1
       T2: cy (check Y, always a miss), c2 (check X, nested), [m2 compute X -> r2, s2 store X], sy (store Y)
    returns (result, order list or None)"""
    import z3
    s = z3.Solver()
    s.set("timeout", 60000)
    T = {n: z3.Int("t_" + n) for n in ("c1", "m1", "s1", "cy", "c2", "m2", "s2", "sy")}
    r1, r2 = z3.Real("r1"), z3.Real("r2")
    s.add(z3.Distinct(*T.values()))
    for v in T.values():
        s.add(v >= 0, v < 16)
    # program order
    s.add(T["c1"] < T["m1"], T["m1"] < T["s1"])
    s.add(T["cy"] < T["c2"], T["c2"] < T["m2"], T["m2"] < T["s2"], T["s2"] < T["sy"])
    # hit/miss: a check hits iff a store by the OTHER thread precedes it (the memo starts empty)
    hit1 = z3.Bool("hit1")
    hit2 = z3.Bool("hit2")
    ex1, ex2 = z3.Not(hit1), z3.Not(hit2)          # compute+store executed only on a miss
    s.add(hit1 == z3.And(ex2, T["s2"] < T["c1"]))
    s.add(hit2 == z3.And(ex1, T["s1"] < T["c2"]))
    # lock: T1's critical section [c1 .. s1 or c1] and T2's outer section [cy .. sy] do not overlap
    if info["locked"]:
        end1 = z3.If(hit1, T["c1"], T["s1"])
        s.add(z3.Or(end1 < T["cy"], T["sy"] < T["c1"]))
    # values
    reported = z3.If(hit1, r2, r1)
    consumed = z3.If(hit2, r1, r2)
    both = z3.And(ex1, ex2)
    final = z3.If(both, z3.If(T["s1"] < T["s2"], r2, r1), z3.If(ex1, r1, r2))
    s.add(r1 != r2)
    bad = z3.Or(reported != consumed, reported != final)
    s.add(bad if want_violation else z3.Not(bad))
    res = str(s.check())
    if res != "sat":
        return res, None
    m = s.model()
    h1, h2 = z3.is_true(m[hit1]), z3.is_true(m[hit2])
    ops = [("T1", ("X", "check"), m[T["c1"]].as_long())]
    if not h1:
        ops += [("T1", ("X", "compute"), m[T["m1"]].as_long()), ("T1", ("X", "store"), m[T["s1"]].as_long())]
    ops += [("T2", ("Y", "check"), m[T["cy"]].as_long()), ("T2", ("Y", "compute"), m[T["cy"]].as_long() + 0.5),
            ("T2", ("X", "check"), m[T["c2"]].as_long())]
    if not h2:
        ops += [("T2", ("X", "compute"), m[T["m2"]].as_long()), ("T2", ("X", "store"), m[T["s2"]].as_long())]
    ops += [("T2", ("Y", "store"), m[T["sy"]].as_long())]
    ops.sort(key=lambda o: o[2])
    return res, [(th, list(k)) for th, k, _ in ops]


def real_run(order, info):
    """forces the schedule on the real Model; returns (reported X by T1, Y reported by T2, final memo X)"""
    import random as _r
    import threading
    from BPTK_Py import Model
    from BPTK_Py import sd_functions as sd
    m = Model(starttime=0.0, stoptime=2.0, dt=1.0, name="race")
    X, Y = m.converter("X"), m.converter("Y")
    X.equation = sd.random(0.0, 1.0)
    Y.equation = X * 2.0
    cnt = [0]
    lk = threading.Lock()

    def fake(a, b):
        with lk:
            cnt[0] += 1
            return float(cnt[0] * 10)
    lines = {info["check"]: "check", info["compute"]: "compute", info["store"]: "store"}

    def key_at(kind):
        return lambda frame: (frame.f_locals.get("equation"), kind)
    watch = {Model.memoize.__code__: {ln: key_at(kind) for ln, kind in lines.items()}}
    enf = schedbmc.Enforcer([(th, tuple(k)) for th, k in order], watch, timeout=5.0)
    old = _r.uniform
    _r.uniform = fake
    try:
        res = enf.run({"T1": lambda: m.memoize("X", 1.0), "T2": lambda: m.memoize("Y", 1.0)})
    finally:
        _r.uniform = old
    return res.get("T1"), res.get("T2"), m.memo["X"].get(1.0), enf


def replay(case):
    info = extract()
    x, y, final, enf = real_run(case["order"], info)
    if isinstance(x, BaseException) or isinstance(y, BaseException):
        return False, "threads raised %r %r" % (x, y)
    bad = (y != 2.0 * x) or (final != x)
    return bad, "schedule %s: X reported %r, Y reported %r (= 2 * %r), memo holds %r%s" % (
        case["order"], x, y, (y / 2.0) if isinstance(y, float) else y, final, "" if not enf.failed else " [enforcer: %s]" % enf.failed)


def run_part(rep, tier):
    from BPTK_Py import Model
    out = {"states": 0, "transitions": 0, "replayed": 0, "samples": []}
    try:
        info = extract()
    except Exception as e:
        rep.inconcl("part C: extraction failed: %s" % e)
        return out
    out["extracted"] = {k: v for k, v in info.items()}
    if info.get("partially_locked"):
        rep.inconcl("part C: memoize is only partially inside a lock; the encoding handles all-or-nothing locking")
        return out
    # witness: some schedule satisfies the property (assumptions are satisfiable)
    w, _ = bmc(info, want_violation=False)
    out["states"] += 1
    if w != "sat":
        rep.inconcl("part C: reachability witness is %s" % w)
    res, order = bmc(info, want_violation=True)
    out["states"] += 1
    out["samples"].append({"bmc": "2 threads, memoize(X) || memoize(Y->X), 8 operations", "locked": info["locked"], "verdict": res})
    if res == "unsat":
        out["transitions"] += 1
    elif res == "sat":
        out["replayed"] += 1
        rep.candidate("race:memoize:double-compute", {"kind": "sched", "order": order},
                      "schedule %s makes two draws for X(t): the reported X is not the X that Y consumed" % (order,))
    else:
        rep.inconcl("part C: solver %s" % res)
    # canary: the same encoding without the lock must yield a schedule, and the enforcer must be able to
    # reproduce it on an unlocked memoize (in-memory mutant when the real one is locked)
    r2, o2 = bmc(dict(info, locked=False), want_violation=True)
    rep.canary("memoize-without-lock-has-a-bad-schedule", r2 == "sat")
    return out
