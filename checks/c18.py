"""C18 - step-advancing requests on one instance never interleave.

Engine: schedbmc.  The protocol of each stepping handler (_run_step_resource, _run_steps_resource,
_stream_steps_resource + its nested streamer generator) and of bptk.lock/unlock/is_locked/run_step is
extracted from the AST of the real functions on every run: where the lock is tested, taken and released
(normal path, except handler, finally), how many steps run, where run_step reads and writes the session
clock.  z3 chooses a timestamp for every operation of 2 (3) concurrent requests (= the schedule), the
request kinds and a fault per request (none / exception inside run_step / client gone at a yield); the
negated property is asserted at quiescence.  A satisfying schedule is forced on the REAL Flask app with
real threads by the settrace enforcer and reported only if the real responses violate the property."""
import ast
import inspect
import itertools
import json
import os
import textwrap
import threading

from vsym import harness
import schedbmc

PID = "C18"
MODULE = "checks.c18"
KINDS = ["step", "steps", "stream"]


# ------------------------------------------------------------------ extraction

def _unwrap(f):
    while hasattr(f, "__wrapped__"):
        f = f.__wrapped__
    return f


def _calls(node, name):
    return [n for n in ast.walk(node) if isinstance(n, ast.Call) and isinstance(n.func, ast.Attribute) and n.func.attr == name]


def extract_handler(fn):
    """summary of one handler: lines are absolute line numbers in the source file"""
    fn = _unwrap(fn)
    src, first = inspect.getsourcelines(fn)
    tree = ast.parse(textwrap.dedent("".join(src))).body[0]
    L = lambda n: first + n.lineno - 1
    info = {"name": fn.__name__, "code": fn.__code__, "test": None, "atomic_test": False, "lock": None, "steps": [], "unlock_normal": None,
            "unlock_error": None, "generator": False, "loop": None, "gen_code": None, "yields": []}
    body_owner = tree
    gens = [n for n in ast.walk(tree) if isinstance(n, ast.FunctionDef) and n is not tree and any(isinstance(x, (ast.Yield, ast.YieldFrom)) for x in ast.walk(n))]
    if gens:
        info["generator"] = True
        g = gens[0]
        for c in fn.__code__.co_consts:
            if inspect.iscode(c) and c.co_name == g.name:
                info["gen_code"] = c
        info["yields"] = [L(n) for n in ast.walk(g) if isinstance(n, ast.Yield)]
    parents = {}
    for n in ast.walk(tree):
        for ch in ast.iter_child_nodes(n):
            parents[ch] = n
    for n in ast.walk(tree):
        if isinstance(n, ast.If):
            t = ast.unparse(n.test)
            if "is_locked()" in t and any(isinstance(x, ast.Return) for x in n.body):
                info["test"] = L(n)
            if "try_lock()" in t and any(isinstance(x, ast.Return) for x in n.body):
                info["test"] = L(n)
                info["atomic_test"] = True
                info["lock"] = L(n)
            if info["test"] == L(n):
                # a lock test that only runs for some request shapes (nested under a condition on the request) does not
                # protect the handler: a client can send the other shape.  The replay sends stream-steps without a body.
                a = parents.get(n)
                while a is not None and a is not tree:
                    if isinstance(a, ast.If) and ({x.id for x in ast.walk(a.test) if isinstance(x, ast.Name)} & {"is_json", "content", "request"}):
                        inside = set(id(x) for x in ast.walk(a))
                        steps_outside = [c for c in _calls(tree, "run_step") if id(c) not in inside]
                        if steps_outside:
                            info["test_conditional_on_request"] = True     # some stepping code is not under that condition
                    a = parents.get(a)
    if info.get("test_conditional_on_request"):
        info["test"], info["lock"], info["atomic_test"] = None, None, False

    def scan(stmts, ctx):
        for st in stmts:
            if isinstance(st, ast.Try):
                scan(st.body, ctx)
                for h in st.handlers:
                    scan(h.body, "error")
                scan(st.finalbody, "finally")
                scan(st.orelse, ctx)
                continue
            if isinstance(st, (ast.For, ast.While)):
                if _calls(st, "run_step"):
                    info["loop"] = "for" if isinstance(st, ast.For) else "while"
                scan(st.body, ctx)
                continue
            if isinstance(st, ast.If):
                scan(st.body, ctx)
                scan(st.orelse, ctx)
                continue
            if isinstance(st, ast.With):
                scan(st.body, ctx)
                continue
            if isinstance(st, ast.FunctionDef):
                scan(st.body, ctx)
                continue
            for c in _calls(st, "lock"):
                if ctx == "normal" and info["lock"] is None:
                    info["lock"] = L(c)
            for c in _calls(st, "unlock"):
                if ctx == "error":
                    info["unlock_error"] = L(c)
                elif ctx == "finally":
                    info["unlock_error"] = L(c)
                    info["unlock_normal"] = L(c)
                elif info["unlock_normal"] is None:
                    info["unlock_normal"] = L(c)
            for c in _calls(st, "run_step"):
                info["steps"].append(L(c))
    scan(tree.body, "normal")
    # statements executed after the lock was taken and before the try block whose finally/except releases it: an
    # exception raised there leaves the lock set
    info["unprotected"] = []

    def siblings(stmts):
        for idx, st in enumerate(stmts):
            if isinstance(st, ast.If) and info["test"] is not None and L(st) == info["test"]:
                for nxt in stmts[idx + 1:]:
                    if isinstance(nxt, ast.Try) and (any(_calls(x, "unlock") for x in nxt.finalbody) or any(_calls(x, "unlock") for h_ in nxt.handlers for x in h_.body)):
                        break
                    if isinstance(nxt, (ast.FunctionDef, ast.Return)):
                        continue                      # a nested function's body runs later; building the response is not input-dependent
                    names = set(x.id for x in ast.walk(nxt) if isinstance(x, ast.Name))
                    reads_input = bool(names & {"content", "request"})
                    if reads_input and (any(isinstance(x, ast.Call) for x in ast.walk(nxt)) or any(isinstance(x, ast.Subscript) for x in ast.walk(nxt))):
                        info["unprotected"].append(L(nxt))    # decodes request input: can raise on a malformed body
                return True
            for sub in (getattr(st, "body", []), getattr(st, "orelse", []), getattr(st, "finalbody", [])):
                if isinstance(sub, list) and siblings(sub):
                    return True
            for h_ in getattr(st, "handlers", []):
                if siblings(h_.body):
                    return True
        return False
    if info["atomic_test"]:
        siblings(tree.body)
    info["unlock_when_refused"] = False
    if info["test"] is not None:
        for tr in [n for n in ast.walk(tree) if isinstance(n, ast.Try)]:
            inside = any(isinstance(n, ast.If) and L(n) == info["test"] for st in tr.body for n in ast.walk(st))
            if inside and any(_calls(st, "unlock") for st in tr.finalbody):
                info["unlock_when_refused"] = True
    return info


def extract_run_step():
    from BPTK_Py.bptk import bptk
    fn = bptk.run_step
    src, first = inspect.getsourcelines(fn)
    tree = ast.parse(textwrap.dedent("".join(src))).body[0]
    read = write = None
    for n in ast.walk(tree):
        if isinstance(n, ast.Assign):
            tgt, val = ast.unparse(n.targets[0]).replace("'", '"'), ast.unparse(n.value).replace("'", '"')
            if tgt == "step" and 'session_state["step"]' in val:
                read = first + n.lineno - 1
            if tgt == 'self.session_state["step"]':
                write = first + n.lineno - 1
    if read is None or write is None:
        raise ValueError("bptk.run_step: clock read/write not recognised")
    # where the step's work (the runner call, which is what can fail) sits relative to the clock write
    work = [first + n.lineno - 1 for n in ast.walk(tree) if isinstance(n, ast.Call) and isinstance(n.func, ast.Attribute)
            and n.func.attr == "run_scenario_step"]
    if not work:
        raise ValueError("bptk.run_step: the runner call was not recognised")
    return {"code": fn.__code__, "read": read, "write": write, "write_before_work": write < min(work)}


def probe_save():
    """the state save every stepping handler performs after its unlock (and GET /save-state performs at any time) goes
    through InstanceManager._get_instance_state.  The REAL function is run on a locked stub session: does it touch
    the lock flag of the LIVE session?  (frame condition of the protocol: only lock/unlock/try_lock write the flag)"""
    import BPTK_Py.server.bptkServer as srv
    fn = srv.InstanceManager._get_instance_state

    class _B(object):
        def __init__(self):
            self.session_state = {"lock": True, "step": 0.0, "settings_log": {}, "results_log": {}}
    im = srv.InstanceManager(lambda: None)
    b = _B()
    im._instances["probe"] = {"instance": b, "time": None, "timeout": {"hours": 1}}
    try:
        fn(im, "probe")
    except Exception as e:
        raise ValueError("_get_instance_state could not be probed: %r" % (e,))
    src, first = inspect.getsourcelines(fn)
    tree = ast.parse(textwrap.dedent("".join(src))).body[0]
    line = None
    for n in ast.walk(tree):
        if isinstance(n, ast.Assign) and '["lock"]' in ast.unparse(n.targets[0]).replace("'", '"'):
            line = first + n.lineno - 1
    return {"clears_live_lock": b.session_state.get("lock") is not True, "code": fn.__code__, "line": line}


def extract():
    import BPTK_Py.server.bptkServer as srv
    from BPTK_Py.bptk import bptk
    hs = {"step": extract_handler(srv.BptkServer._run_step_resource),
          "steps": extract_handler(srv.BptkServer._run_steps_resource),
          "stream": extract_handler(srv.BptkServer._stream_steps_resource)}
    for k, h in hs.items():
        if not h["steps"]:
            raise ValueError("handler %s: no run_step call found" % k)
    save = probe_save()
    if save["clears_live_lock"]:
        if save["line"] is None:
            raise ValueError("_get_instance_state changes the live lock flag at a place the extractor does not recognise")
        # the save is an operation of the protocol: a write of False to the flag, after each accepted stepping
        # request's unlock, and on its own as a GET /save-state request
        for h in hs.values():
            h["save"] = save
        hs["save"] = {"name": "save-state", "code": None, "test": None, "atomic_test": False, "lock": None, "steps": [], "unlock_normal": None,
                      "unlock_error": None, "generator": False, "loop": None, "gen_code": None, "yields": [], "save": save,
                      "unlock_when_refused": False}
    if any(h["atomic_test"] for h in hs.values()):
        # a combined test-and-set only counts as atomic if the primitive really holds a mutex around test and set
        ok = False
        if hasattr(bptk, "try_lock"):
            t = ast.parse(textwrap.dedent(inspect.getsource(bptk.try_lock))).body[0]
            for w in [n for n in ast.walk(t) if isinstance(n, ast.With)]:
                guard = " ".join(ast.unparse(i.context_expr) for i in w.items).lower()
                inner = ast.unparse(w)
                if ("lock" in guard or "guard" in guard or "mutex" in guard) and "is_locked()" in inner and (".lock()" in inner or '["lock"] = True' in inner.replace("'", '"')):
                    ok = True
        if not ok:
            inner = None
            if hasattr(bptk, "try_lock"):
                # where test and set really happen (inside the primitive), so that a replay can separate them
                src, first = inspect.getsourcelines(bptk.try_lock)
                t = ast.parse(textwrap.dedent("".join(src))).body[0]
                tl = sl = None
                for n in ast.walk(t):
                    if isinstance(n, ast.If) and "is_locked()" in ast.unparse(n.test) and tl is None:
                        tl = first + n.lineno - 1
                    if isinstance(n, (ast.Expr, ast.Assign)):
                        u = ast.unparse(n).replace("'", '"')
                        if (u.endswith(".lock()") or u.endswith('["lock"] = True')) and sl is None:
                            sl = first + n.lineno - 1
                if tl and sl and tl != sl:
                    inner = {"code": bptk.try_lock.__code__, "test": tl, "lock": sl}
            for h in hs.values():
                if h["atomic_test"]:
                    h["atomic_test"] = False         # modelled as a separate test and set: the solver will find the window
                    h["lock"] = h["test"]
                    h["inner"] = inner
    # lock primitives must be plain flag operations (otherwise the encoding does not apply)
    for nm in ("lock", "unlock", "is_locked"):
        s = inspect.getsource(getattr(bptk, nm))
        if 'session_state["lock"]' not in s.replace("'", '"'):
            raise ValueError("bptk.%s is not a plain flag operation" % nm)
    return hs, extract_run_step()


# ------------------------------------------------------------------ BMC

def ops_of(kind, h, nsteps):
    """operation list of one request (names are unique per request)"""
    ops = []
    if h["test"]:
        ops.append("T")
        if h.get("unlock_when_refused"):
            ops.append("X")          # the unlock a refused request executes on its way out
    if h["lock"] and not h["atomic_test"]:
        ops.append("L")
    for j in range(nsteps):
        ops += ["R%d" % j, "W%d" % j]
    if h["unlock_normal"] or h["unlock_error"]:
        ops.append("U")
    if h.get("save"):
        ops.append("S")              # the state save (only present when it writes the live lock flag)
    return ops


_RS = {}            # run_step facts for the encoding (set by run() / replay())


def bmc(hs, kinds, nsteps, want_violation=True, faults=True):
    """returns (result, scenario dict)"""
    import z3
    s = z3.Solver()
    s.set("timeout", 120000)
    R = range(len(kinds))
    ts, act = {}, {}
    allops = []
    for r in R:
        for o in ops_of(kinds[r], hs[kinds[r]], nsteps[r]):
            ts[(r, o)] = z3.Int("t_%d_%s" % (r, o))
            act[(r, o)] = z3.Bool("a_%d_%s" % (r, o))
            allops.append((r, o))
    M = len(allops)
    s.add(z3.Distinct(*[ts[k] for k in allops]))
    for k in allops:
        s.add(ts[k] >= 0, ts[k] < M)
    for r in R:
        seq = ops_of(kinds[r], hs[kinds[r]], nsteps[r])
        for a, b in zip(seq, seq[1:]):
            s.add(ts[(r, a)] < ts[(r, b)])
    # fault per request: 0 none, 1 exception inside run_step j (after the clock read), 2 client gone after step j (stream)
    fault = {r: z3.Int("fault_%d" % r) for r in R}
    fstep = {r: z3.Int("fstep_%d" % r) for r in R}
    for r in R:
        if nsteps[r] == 0:
            s.add(fault[r] == 0, fstep[r] == 0)
            continue
        if not faults:
            s.add(fault[r] == 0)
        else:
            allowed = [0, 1] + ([2] if kinds[r] == "stream" else []) + ([3] if hs[kinds[r]].get("unprotected") else [])
            s.add(z3.Or(*[fault[r] == a for a in allowed]))
        s.add(fstep[r] >= 0, fstep[r] < nsteps[r])

    lockops = [(r, o) for (r, o) in allops if o in ("L", "U", "X", "S") or (o == "T" and hs[kinds[r]]["atomic_test"])]

    def lock_at(t, exclude=None):
        """value of the lock flag seen at time t"""
        terms = []
        for k in lockops:
            if k == exclude:
                continue
            later = [z3.And(act[k2], ts[k] < ts[k2], ts[k2] < t) for k2 in lockops if k2 != k and k2 != exclude]
            last = z3.And(act[k], ts[k] < t, z3.Not(z3.Or(*later)) if later else True)
            sets_true = k[1] in ("L", "T")
            if sets_true:
                terms.append(last)
        return z3.Or(*terms) if terms else z3.BoolVal(False)

    proceed = {}
    for r in R:
        h = hs[kinds[r]]
        if h["test"]:
            seen = lock_at(ts[(r, "T")], exclude=(r, "T"))
            proceed[r] = z3.Not(seen)
            # the test itself always executes; an atomic test takes the lock when it proceeds
            s.add(act[(r, "T")] == (proceed[r] if h["atomic_test"] else z3.BoolVal(True)))
        else:
            proceed[r] = z3.BoolVal(True)
        if (r, "X") in act:
            s.add(act[(r, "X")] == z3.Not(proceed[r]))
        if (r, "S") in act:
            s.add(act[(r, "S")] == proceed[r])        # a refused request returns before the save; GET /save-state always saves
    rv, wv, produced = {}, {}, {}
    wops = [(r, o) for (r, o) in allops if o.startswith("W")]
    for r in R:
        h = hs[kinds[r]]
        n = nsteps[r]
        if ("L" in [o for (rr, o) in allops if rr == r]):
            s.add(act[(r, "L")] == proceed[r])
        for j in range(n):
            before_fault = z3.Or(fault[r] == 0, j < fstep[r]) if True else True
            at_fault = z3.And(fault[r] != 0, j == fstep[r])
            # reads happen for steps up to and including the faulty one (exception: after the read; client gone: after the step)
            ract = z3.And(proceed[r], fault[r] != 3, z3.Or(before_fault, at_fault))      # fault 3: exception before the first step
            # a step whose work raises (fault 1) has moved the clock only if run_step writes it before doing the work
            fault1_writes = z3.BoolVal(bool(_RS.get("write_before_work")))
            wact = z3.And(proceed[r], fault[r] != 3, z3.Or(before_fault, z3.And(at_fault, z3.Or(fault[r] == 2, z3.And(fault[r] == 1, fault1_writes)))))
            produced[(r, j)] = z3.And(proceed[r], fault[r] != 3, z3.Or(before_fault, z3.And(at_fault, fault[r] == 2)))     # the step is in the response
            s.add(act[(r, "R%d" % j)] == ract)
            s.add(act[(r, "W%d" % j)] == wact)
            rv[(r, j)] = z3.Int("rv_%d_%d" % (r, j))
            wv[(r, j)] = z3.Int("wv_%d_%d" % (r, j))
            s.add(wv[(r, j)] == rv[(r, j)] + 1)
        if (r, "U") in act:
            normal_end = z3.And(proceed[r], fault[r] == 0)
            error_end = z3.And(proceed[r], fault[r] != 0, fault[r] != 3)          # fault 3 is raised outside the try that unlocks
            u = z3.BoolVal(False)
            if h["unlock_normal"]:
                u = z3.Or(u, normal_end)
            if h["unlock_error"]:
                u = z3.Or(u, error_end)
            s.add(act[(r, "U")] == u)
    # clock values: a read sees the value of the last active write before it (0 if none)
    for (r, j), v in rv.items():
        t = ts[(r, "R%d" % j)]
        val = z3.IntVal(0)
        for k in wops:
            later = [z3.And(act[k2], ts[k] < ts[k2], ts[k2] < t) for k2 in wops if k2 != k]
            last = z3.And(act[k], ts[k] < t, z3.Not(z3.Or(*later)) if later else True)
            val = z3.If(last, wv[(k[0], int(k[1][1:]))], val)
        s.add(v == val)
    final_clock = z3.IntVal(0)
    for k in wops:
        later = [z3.And(act[k2], ts[k] < ts[k2]) for k2 in wops if k2 != k]
        last = z3.And(act[k], z3.Not(z3.Or(*later)) if later else True)
        final_clock = z3.If(last, wv[(k[0], int(k[1][1:]))], final_clock)
    final_lock = lock_at(z3.IntVal(M + 1))
    returned = z3.Sum([z3.If(produced[(k[0], int(k[1][1:]))], 1, 0) for k in wops]) if wops else z3.IntVal(0)
    consecutive = z3.And(*[z3.Implies(z3.And(act[(r, "R%d" % (j + 1))], act[(r, "W%d" % j)]), rv[(r, j + 1)] == rv[(r, j)] + 1)
                           for r in R for j in range(nsteps[r] - 1)]) if any(nsteps[r] > 1 for r in R) else z3.BoolVal(True)
    pairs = [((r, j), (q, i)) for (r, j) in rv for (q, i) in rv if (r, j) < (q, i) and r != q]
    distinct = z3.And(*[z3.Implies(z3.And(act[(a[0], "W%d" % a[1])], act[(b[0], "W%d" % b[1])]), rv[a] != rv[b]) for a, b in pairs]) if pairs else z3.BoolVal(True)
    advance = final_clock == returned
    released = z3.Not(final_lock)
    good = z3.And(consecutive, distinct, advance, released)
    s.add(z3.Not(good) if want_violation else good)
    res = str(s.check())
    if res != "sat":
        return res, None
    m = s.model()
    ev = lambda e: m.eval(e, model_completion=True)
    order = sorted([(ev(ts[k]).as_long(), k) for k in allops if z3.is_true(ev(act[k])) or k[1] == "T"])
    which = []
    if not z3.is_true(ev(consecutive)):
        which.append("non-consecutive-steps")
    if not z3.is_true(ev(distinct)):
        which.append("duplicate-step-time")
    if not z3.is_true(ev(advance)):
        which.append("clock-advance")
    if not z3.is_true(ev(released)):
        which.append("lock-left-set")
    return res, {"kinds": list(kinds), "nsteps": list(nsteps), "order": [[k[0], k[1]] for _, k in order],
                 "faults": [ev(fault[r]).as_long() for r in R], "fsteps": [ev(fstep[r]).as_long() for r in R], "violates": which,
                 "refused": [not z3.is_true(ev(proceed[r])) for r in R]}


# ------------------------------------------------------------------ replay on the real Flask app

TOKEN = None


def bptk_factory():
    import BPTK_Py
    from BPTK_Py import Model
    model = Model(starttime=0.0, stoptime=3.0, dt=1.0, name="c18")
    stock, flow, constant = model.stock("stock"), model.flow("flow"), model.constant("constant")
    stock.initial_value = 0.0
    stock.equation = flow
    flow.equation = constant
    constant.equation = 1.0
    b = BPTK_Py.bptk()
    b.register_scenario_manager({"sm": {"model": model}})
    b.register_scenarios(scenario_manager="sm", scenarios={"1": {}})
    return b


class Boom(Exception):
    pass


def real_run(sc, hs, rs):
    """forces the schedule on the real handlers; returns observations"""
    from BPTK_Py.server import BptkServer
    from BPTK_Py.bptk import bptk as bptk_cls
    save = hs.get("save", {}).get("save") if "save" in hs else None
    statedir = None
    if save:
        # the save only happens with an external state adapter configured
        import tempfile
        from BPTK_Py.externalstateadapter import FileAdapter
        statedir = tempfile.mkdtemp(prefix="c18-", dir=os.environ.get("VCHECK_SCRATCH"))
        app = BptkServer(__name__, bptk_factory, FileAdapter(False, statedir))
    else:
        app = BptkServer(__name__, bptk_factory)
    c0 = app.test_client()
    inst = json.loads(c0.post("/start-instance", data=json.dumps({"timeout": {"hours": 1}}), content_type="application/json").data)["instance_uuid"]
    c0.post("/%s/begin-session" % inst, data=json.dumps({"scenario_managers": ["sm"], "scenarios": ["1"], "equations": ["stock"]}),
            content_type="application/json")
    b = app._instance_manager._instances[inst]["instance"]
    kinds, nsteps = sc["kinds"], sc["nsteps"]
    if "stream" in kinds:
        # stream runs until the stop time: place the clock so that exactly nsteps remain
        ns = nsteps[kinds.index("stream")]
        b.session_state["stoptime"] = float(ns - 1) if kinds.count("stream") == 1 else float(ns - 1)
    names = ["Q%d" % r for r in range(len(kinds))]
    # watch table: handler code objects and bptk.run_step
    counters = {n: {"R": 0, "W": 0} for n in names}

    def key_fn(kind):
        def f(frame):
            n = threading.current_thread().name
            if n not in counters:
                return None
            j = counters[n][kind]
            counters[n][kind] += 1
            return "%s%d" % (kind, j)
        return f
    watch = {rs["code"]: {rs["read"]: key_fn("R"), rs["write"]: key_fn("W")}}
    for k in set(kinds):
        h = hs[k]
        table = {}
        if h.get("inner"):
            watch.setdefault(h["inner"]["code"], {}).update({h["inner"]["test"]: (lambda frame: "T"), h["inner"]["lock"]: (lambda frame: "L")})
        else:
            if h["test"]:
                table[h["test"]] = lambda frame: "T"
            if h["lock"] and not h["atomic_test"]:
                table[h["lock"]] = lambda frame: "L"
        for ln in (h["unlock_normal"], h["unlock_error"]):
            if ln:
                table[ln] = lambda frame: "U"
        code = h["code"]
        if h["gen_code"] is not None:
            gtab = {ln: fn for ln, fn in table.items() if ln != h["test"]}
            watch[h["gen_code"]] = gtab
            table = {ln: fn for ln, fn in table.items() if ln == h["test"]}
        watch.setdefault(code, {}).update(table)
    if save:
        watch.setdefault(save["code"], {})[save["line"]] = lambda frame: "S"
    order = [("Q%d" % r, ("U" if o == "X" else o)) for r, o in sc["order"]]
    enf = schedbmc.Enforcer(order, watch, timeout=8.0)
    # fault injection: exception inside run_step after the clock read
    orig_run_step = bptk_cls.run_step
    fault_at = {names[r]: (sc["faults"][r], sc["fsteps"][r]) for r in range(len(kinds))}
    calls = {n: 0 for n in names}

    from BPTK_Py.scenariorunners.sd_runner import SdRunner
    orig_runner_step = SdRunner.run_scenario_step

    def failing_runner_step(self, *a, **k):
        # the fault is raised where a step can really fail: inside the runner the real run_step calls
        n = threading.current_thread().name
        if n in calls:
            j = calls[n]
            calls[n] += 1
            f, fs = fault_at[n]
            if f == 1 and j == fs:
                raise Boom("injected fault in the step's work")
        return orig_runner_step(self, *a, **k)
    patched = orig_run_step
    results = {}

    def body(r):
        def f():
            cl = app.test_client()
            k = kinds[r]
            if k == "save":
                resp = cl.get("/save-state")
                return resp.status_code, ""
            if k == "step":
                resp = cl.post("/%s/run-step" % inst)
                return resp.status_code, resp.data.decode()
            if k == "steps":
                n_ = nsteps[r] if fault_at[names[r]][0] != 3 else "three"     # fault 3: an input the statements before the try choke on
                resp = cl.post("/%s/run-steps" % inst, data=json.dumps({"numberSteps": n_, "settings": {}}), content_type="application/json")
                return resp.status_code, resp.data.decode()
            resp = cl.post("/%s/stream-steps" % inst, buffered=False)
            if resp.status_code != 200:
                return resp.status_code, resp.data.decode()
            chunks = []
            it = resp.response
            f_, fs = fault_at[names[r]]
            got_steps = 0
            try:
                for ch in it:
                    ch = ch.decode() if isinstance(ch, bytes) else ch
                    chunks.append(ch)
                    if ch.startswith("{"):
                        got_steps += 1
                        if f_ == 2 and got_steps == fs + 1:
                            it.close()                 # the client goes away
                            break
            finally:
                try:
                    resp.close()
                except Exception:
                    pass
            return 200, "".join(chunks)
        return f
    SdRunner.run_scenario_step = failing_runner_step
    try:
        res = enf.run({names[r]: body(r) for r in range(len(kinds))})
    finally:
        SdRunner.run_scenario_step = orig_runner_step
    obs = {"responses": {}, "clock": b.session_state["step"] if b.session_state else None, "lock": b.is_locked(), "enforcer": enf.failed}
    for n in names:
        v = res.get(n)
        if isinstance(v, BaseException):
            obs["responses"][n] = ("exception", repr(v))
        else:
            obs["responses"][n] = v
    follow = c0.post("/%s/run-step" % inst)
    obs["follow_up_status"] = follow.status_code
    obs["follow_up_body"] = follow.data.decode()[:120]
    if statedir:
        import shutil
        shutil.rmtree(statedir, ignore_errors=True)
    return obs


def step_times(body):
    import re
    return [float(x) for x in re.findall(r'"stock": \{"([0-9.]+)"', body)]


def judge(obs, sc):
    """does the real run violate the property?  -> list of violated clauses"""
    bad = []
    all_times = []
    total = 0
    for n, v in obs["responses"].items():
        if not v or v[0] != 200:
            continue
        ts = step_times(v[1])
        total += len(ts)
        for a, b in zip(ts, ts[1:]):
            if b != a + 1.0:
                bad.append("non-consecutive-steps")
        all_times += ts
    if len(all_times) != len(set(all_times)):
        bad.append("duplicate-step-time")
    if obs["clock"] is not None and float(obs["clock"]) != float(total):
        bad.append("clock-advance")
    if obs["lock"]:
        bad.append("lock-left-set")
    return sorted(set(bad))


def replay(case):
    hs, rs = extract()
    _RS.update(rs)
    obs = real_run(case, hs, rs)
    bad = judge(obs, case)
    short = {n: (v[0], step_times(v[1]) if v and v[0] == 200 else str(v[1])[:60]) for n, v in obs["responses"].items()}
    return bool(bad), "requests %s, schedule %s, faults %s: responses %s, clock %s, lock %s, follow-up run-step %s -> %s%s" % (
        case["kinds"], case["order"], case["faults"], short, obs["clock"], obs["lock"], obs["follow_up_status"], bad or "property holds",
        " [enforcer: %s]" % obs["enforcer"] if obs["enforcer"] else "")


# ------------------------------------------------------------------ main

def signature(sc):
    kinds = "||".join(sorted(sc["kinds"]))
    f = "+fault" if any(sc["faults"]) else ""
    return "%s%s:%s" % (kinds, f, "+".join(sc["violates"]))


def run(tier):
    import BPTK_Py.server.bptkServer as srv
    from BPTK_Py.bptk import bptk
    rep = harness.Report(PID, tier, "model_checking", MODULE)
    rep.encoded(_unwrap(srv.BptkServer._run_step_resource), _unwrap(srv.BptkServer._run_steps_resource),
                _unwrap(srv.BptkServer._stream_steps_resource), bptk.lock, bptk.unlock, bptk.is_locked, bptk.run_step,
                srv.InstanceManager._get_instance_state)
    try:
        hs, rs = extract()
    except Exception as e:
        rep.inconcl("extraction failed: %s" % e)
        return rep.finish()
    _RS.update(rs)
    summary = {k: {x: v for x, v in h.items() if x not in ("code", "gen_code", "save", "inner")} for k, h in hs.items()}
    summary["state_save_writes_live_lock_flag"] = "save" in hs
    queries, unsat = 0, 0
    samples = []
    combos = []
    for kinds in itertools.combinations_with_replacement(KINDS, 2):
        combos.append(kinds)
    for k in KINDS:
        combos.append((k,))                        # a single request must also leave the instance usable
    combos += [("step", "steps", "stream"), ("steps", "step", "step"), ("stream", "step", "step")]
    if tier == "thorough":
        combos += [k for k in itertools.product(KINDS, repeat=3) if k not in combos]
    if "save" in hs:
        # the state save writes the live lock flag: it is part of the protocol, also as a request of its own
        combos += [("steps", "save", "step"), ("stream", "save", "step"), ("steps", "save", "steps")]
    for kinds in combos:
        nst = tuple(0 if k == "save" else (1 if k == "step" else 2) for k in kinds)
        variants = [nst]
        if tier == "thorough" and len(kinds) == 2 and any(k != "step" for k in kinds):
            variants.append(tuple(0 if k == "save" else (1 if k == "step" else 3) for k in kinds))    # 3-step multi-step requests
        for nst in variants:
            for faults in (False, True):
                res, sc = bmc(hs, kinds, nst, want_violation=True, faults=faults)
                queries += 1
                if len(samples) < 8:
                    samples.append({"requests": list(kinds), "steps": list(nst), "faults_allowed": faults, "verdict": res,
                                    "violates": sc["violates"] if sc else []})
                if res == "unsat":
                    unsat += 1
                elif res == "sat":
                    rep.candidate(signature(sc), sc, "requests %s (faults %s): schedule %s violates %s" % (list(kinds), sc["faults"], sc["order"], sc["violates"]))
                    break                               # the fault-free schedule is the more basic finding
                else:
                    rep.inconcl("BMC %s faults=%s: %s" % (kinds, faults, res))
    # witness: the encoding admits a good run
    w, _ = bmc(hs, ("step", "step"), (1, 1), want_violation=False, faults=False)
    queries += 1
    if w != "sat":
        rep.inconcl("reachability witness (two run-step requests, some good schedule) is %s" % w)
    # the extraction is validated against the implementation: schedules the solver considers GOOD are forced on the
    # real app; the enforcer must be able to follow them and the real responses must satisfy the property
    validated = 0
    for kinds, nst in ((("steps", "steps"), (2, 2)), (("step", "stream"), (1, 2)), (("step", "step"), (1, 1))):
        wr, wsc = bmc(hs, kinds, nst, want_violation=False, faults=False)
        queries += 1
        if wr != "sat":
            rep.inconcl("no good schedule for %s: %s" % (kinds, wr))
            continue
        try:
            obs = real_run(wsc, hs, rs)
        except Exception as e:
            rep.inconcl("good schedule for %s could not be run on the real app: %r" % (kinds, e))
            continue
        bad = judge(obs, wsc)
        if obs["enforcer"]:
            rep.inconcl("the real handlers did not follow the extracted protocol for %s: %s" % (kinds, obs["enforcer"]))
        elif bad:
            rep.candidate("good-schedule-misjudged:%s" % "+".join(bad), wsc, "a schedule the model considers good violates %s on the real app" % bad)
        else:
            validated += 1
    # canary: with the is_locked() test removed from run-steps the encoding must find a schedule
    h2 = {k: dict(v) for k, v in hs.items()}
    h2["steps"]["test"] = None
    r2, _ = bmc(h2, ("steps", "steps"), (2, 2), want_violation=True, faults=False)
    rep.canary("run-steps-without-lock-test", r2 == "sat")
    rep.assume("2 and 3 concurrent requests on one instance; run-steps with numberSteps = 2, stream-steps with 2 steps left; source-line granularity",
               "fault per request: none, exception raised inside run_step after the clock read, client gone after a streamed step, exception in a statement between taking the lock and the try block that releases it (only where the handler has such statements)",
               "lock/unlock/is_locked are plain flag operations (checked on the source); run_step reads the clock at its first and writes it at its last clock statement",
               "frame condition: the only other writer of the flag in the package, the state save (InstanceManager._get_instance_state), is run concretely on a locked stub session; if it changes the live flag it becomes an operation of the model (after every accepted request's unlock, and as a GET /save-state request)")
    rep.coverage.update({"states": queries, "transitions": max(1, unsat), "traces_validated_against_impl": len(rep.cands) + validated, "samples": samples,
                         "extracted_protocol": summary, "run_step_lines": {"read": rs["read"], "write": rs["write"], "clock_written_before_the_work": rs["write_before_work"]}, "exhaustive": True,
                         "explanation": "states = BMC queries (each covers every schedule, request-kind pair and fault choice within the bound); transitions = queries unsat",
                         "outside": "preemption inside one source line, WSGI servers' own threading, more than 3 requests"})
    return rep.finish()
