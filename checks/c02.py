"""C02 - SD DSL expressions keep the grouping of the Python expression that built them.

Engine: vsym (Real mode).  For every expression tree of the bounded family the REAL operator
overloads / sd_functions build the DSL object, the REAL term()/eval/memoize evaluate it on
symbolic operand values, and z3 decides  impl == ref  for all operand values, where ref is
the harness' own evaluation of its own tree.
"""
import itertools
import math
import operator
import random as _random
from fractions import Fraction

from vsym import terms as T, sym as S, solve, harness

PID = "C02"
MODULE = "checks.c02"

ARITH = ["add", "sub", "mul", "div", "pow", "mod"]
CMPS = ["lt", "le", "gt", "ge", "eq", "ne"]
PYOP = {"add": operator.add, "sub": operator.sub, "mul": operator.mul, "div": operator.truediv,
        "pow": operator.pow, "mod": operator.mod, "lt": operator.lt, "le": operator.le,
        "gt": operator.gt, "ge": operator.ge, "eq": operator.eq, "ne": operator.ne}
FN1 = ["neg", "abs", "sqrt", "exp", "round1"]
FN2 = ["min", "max"]
AGGS = ["arr_sum", "arr_prod", "arr_mean", "arr_median", "arr_stddev", "arr_rank2", "arr_size"]
BOOLOPS = ["And", "Or", "Not"]

ELS = ["a", "b", "c", "d", "e", "f", "g", "h", "i", "j", "k", "l", "m", "n", "o", "p"]
VEC = {"v": 3, "w": 2}
NUMS = [2.0, 3.0, 5.0, 7.0, -3.0, 4]


# ------------------------------------------------------------------ tree helpers
# ('el', name) ('num', value) ('bin', op, l, r) ('fn', name, x[, y]) ('agg', name, vec)
# ('If', c, x, y) ('And', l, r) ('Or', l, r) ('Not', x)

def is_bool(t):
    return (t[0] == "bin" and t[1] in CMPS) or t[0] in ("And", "Or", "Not")


def show(t):
    k = t[0]
    if k == "el":
        return t[1]
    if k == "num":
        return repr(t[1])
    if k == "bin":
        s = {"add": "+", "sub": "-", "mul": "*", "div": "/", "pow": "**", "mod": "%", "lt": "<", "le": "<=",
             "gt": ">", "ge": ">=", "eq": "==", "ne": "!="}[t[1]]
        return "(%s %s %s)" % (show(t[2]), s, show(t[3]))
    if k == "fn":
        return "%s(%s)" % (t[1], ", ".join(show(x) for x in t[2:]))
    if k == "agg":
        return "%s.%s()" % (t[2], t[1])
    return "%s(%s)" % (k, ", ".join(show(x) for x in t[1:]))


def head(t):
    k = t[0]
    if k == "bin":
        return t[1]
    if k in ("fn", "agg"):
        return t[1]
    return k


def pairs(t, out=None):
    """(outer head, operand position, inner head) for every compound operand"""
    if out is None:
        out = set()
    kids = []
    if t[0] == "bin":
        kids = [("lhs", t[2]), ("rhs", t[3])]
    elif t[0] == "fn":
        kids = [("arg%d" % i, x) for i, x in enumerate(t[2:])]
    elif t[0] in ("If", "And", "Or", "Not"):
        kids = [("arg%d" % i, x) for i, x in enumerate(t[1:])]
    for pos, k in kids:
        if k[0] not in ("el", "num"):
            out.add("%s.%s.%s" % (head(t), pos, head(k)))
            pairs(k, out)
        elif k[0] == "num" and k[1] < 0:
            out.add("%s.%s.negnum" % (head(t), pos))
    return out


def depth(t):
    if t[0] in ("el", "num", "agg"):
        return 0 if t[0] != "agg" else 1
    return 1 + max(depth(x) for x in t[1:] if isinstance(x, tuple))


def relabel(t):
    """give every element leaf a fresh name in order of appearance"""
    it = iter(ELS)

    def go(x):
        if x[0] == "el":
            return ("el", next(it))
        if x[0] in ("num", "agg"):
            return x
        return tuple(go(y) if isinstance(y, tuple) else y for y in x)
    return go(t)


# ------------------------------------------------------------------ enumeration

def compounds_depth1():
    """all compound trees whose operands are leaves ('?' marks an element leaf)"""
    E = ("el", "?")
    out = []
    for op in ARITH + CMPS:
        out.append(("bin", op, E, E))
        out.append(("bin", op, E, ("num", 3.0)))
        out.append(("bin", op, ("num", 2.0), E))
    for f in FN1:
        out.append(("fn", f, E))
    for f in FN2:
        out.append(("fn", f, E, E))
        out.append(("fn", f, E, ("num", 5.0)))
    for a in AGGS:
        out.append(("agg", a, "v"))
    out.append(("agg", "arr_sum", "w"))
    cmp1 = ("bin", "lt", E, E)
    cmp2 = ("bin", "ge", E, E)
    out.append(("If", cmp1, E, E))
    out.append(("And", cmp1, cmp2))
    out.append(("Or", cmp1, cmp2))
    out.append(("Not", cmp1))
    return out


def outers(x, y):
    """all ways of combining operand trees x (and y) under one more operator"""
    out = []
    for op in ARITH + CMPS:
        out.append(("bin", op, x, y))
    for f in FN2:
        out.append(("fn", f, x, y))
    return out


def outers1(x):
    out = [("fn", f, x) for f in FN1]
    if is_bool(x):
        out.append(("Not", x))
        out.append(("If", x, ("el", "?"), ("el", "?")))
        out.append(("And", x, ("bin", "lt", ("el", "?"), ("el", "?"))))
        out.append(("Or", ("bin", "lt", ("el", "?"), ("el", "?")), x))
    else:
        out.append(("If", ("bin", "lt", ("el", "?"), ("el", "?")), x, ("el", "?")))
        out.append(("If", ("bin", "lt", ("el", "?"), ("el", "?")), ("el", "?"), x))
    return out


def family(tier, seed):
    E = ("el", "?")
    trees = []
    d1 = compounds_depth1()
    trees.extend(d1)                                   # depth 1 (sanity: single operators)
    leaves = [E, ("num", 7.0), ("num", -3.0), ("num", 4)]
    single = []
    for c in d1:                                       # depth 2, one compound operand
        for lf in leaves:
            single.extend(outers(c, lf))
            single.extend(outers(lf, c))
        single.extend(outers1(c))
    trees.extend(single)
    both = []
    for c1 in d1:                                      # depth 2, two compound operands
        for c2 in d1:
            if c1[0] == "bin" and c2[0] == "bin" and c1[2] == E and c1[3] == E and c2[2] == E and c2[3] == E:
                both.extend(outers(c1, c2))
    trees.extend(both)
    if tier == "thorough":
        # depth 3 spines over the arithmetic / comparison operators, all left/right arrangements
        ops = ARITH + CMPS
        for o1 in ops:
            for o2 in ops:
                for o3 in ops:
                    inner = ("bin", o3, E, E)
                    for mid in (("bin", o2, inner, E), ("bin", o2, E, inner)):
                        trees.append(("bin", o1, mid, E))
                        trees.append(("bin", o1, E, mid))
        rnd = _random.Random(seed)
        d2 = single + both
        for _ in range(1500):                          # seeded depth-3/4 shapes beyond the exhaustive part
            x, y = rnd.choice(d2), rnd.choice(d1 + [E])
            if rnd.random() < 0.5:
                x, y = y, x
            trees.append(rnd.choice(outers(x, y)))
    seen = set()
    out = []
    for t in trees:
        t = relabel(t)
        if t not in seen:
            seen.add(t)
            out.append(t)
    return out


# ------------------------------------------------------------------ the real DSL side

def shared_family():
    """expressions in which a compound sub-expression OBJECT occurs more than once (bound to a name and reused), in one
    equation or across two equations: [(tree, first or None)]"""
    A, B_, C = ("el", "a"), ("el", "b"), ("el", "c")
    subs = [("bin", "mul", ("num", 3.0), A), ("bin", "mul", A, ("num", 2.0)), ("fn", "neg", A), ("bin", "add", A, B_),
            ("bin", "sub", A, B_), ("bin", "mul", A, B_), ("bin", "div", A, B_), ("bin", "pow", A, ("num", 2.0)), ("fn", "abs", A),
            ("bin", "mul", ("num", -1.0), A), ("fn", "neg", ("bin", "mul", ("num", 2.0), A))]
    out = []
    for e in subs:
        ne = ("fn", "neg", e)
        out.append((("bin", "add", ("bin", "add", e, ne), C), None))                      # e + (-e) + c
        out.append((("bin", "sub", ("bin", "mul", ne, C), e), None))                      # (-e)*c - e
        out.append((("bin", "add", ("bin", "mul", e, ("num", 2.0)), ("bin", "div", e, C)), None))
        out.append((("bin", "mul", ("bin", "sub", C, e), ("bin", "add", e, C)), None))
        out.append((("bin", "add", e, C), ne))                                            # y = -e defined first, then x = e + c
        out.append((("bin", "sub", ("fn", "abs", e), e), ("bin", "mul", ne, ("num", 3.0))))
    return out


def new_model():
    from BPTK_Py import Model
    m = Model(starttime=0.0, stoptime=5.0, dt=1.0, name="c02")
    els = {n: m.converter(n) for n in ELS}
    vecs = {}
    for vn, size in VEC.items():
        cv = m.converter(vn)
        cv.setup_vector(size, [1.0 + i for i in range(size)])
        vecs[vn] = cv
    return m, els, vecs


def leaf_names():
    names = list(ELS)
    for vn, size in VEC.items():
        names += ["%s[%d]" % (vn, i) for i in range(size)]
    return names


def build_dsl(tree, els, vecs, cache=None):
    """uses the REAL operator overloads and sd_functions.  With a cache, equal subtrees are built ONCE and the same
    Python object is used at every occurrence (a user who binds a sub-expression to a name and reuses it)."""
    if cache is not None and tree[0] not in ("el", "num"):
        if tree not in cache:
            cache[tree] = _build_dsl(tree, els, vecs, cache)
        return cache[tree]
    return _build_dsl(tree, els, vecs, cache)


def _build_dsl(tree, els, vecs, cache=None):
    from BPTK_Py import sd_functions as sd
    _b = build_dsl
    build_dsl_ = lambda t, e, v: _b(t, e, v, cache)
    k = tree[0]
    if k == "el":
        return els[tree[1]]
    if k == "num":
        return tree[1]
    if k == "bin":
        return PYOP[tree[1]](build_dsl_(tree[2], els, vecs), build_dsl_(tree[3], els, vecs))
    if k == "fn":
        args = [build_dsl_(x, els, vecs) for x in tree[2:]]
        f = tree[1]
        if f == "neg":
            return -args[0]
        if f == "round1":
            return sd.round(args[0], 1)
        return getattr(sd, f)(*args)
    if k == "agg":
        ve = vecs[tree[2]]
        if tree[1] == "arr_rank2":
            return ve.arr_rank(2)
        return getattr(ve, tree[1])()
    if k == "If":
        return sd.If(*[build_dsl_(x, els, vecs) for x in tree[1:]])
    if k == "And":
        return sd.And(*[build_dsl_(x, els, vecs) for x in tree[1:]])
    if k == "Or":
        return sd.Or(*[build_dsl_(x, els, vecs) for x in tree[1:]])
    if k == "Not":
        return sd.Not(build_dsl_(tree[1], els, vecs))
    raise ValueError(k)


# ------------------------------------------------------------------ reference semantics (harness-owned)

class SymDom(object):
    @staticmethod
    def leaf(name):
        return S.v(name)

    @staticmethod
    def binop(op, x, y):
        if op == "pow":
            return S.sym_pow(x, y)
        if op == "mod":
            return S.SymReal(T.uf("pymod", (S.term_of(x), S.term_of(y))))
        return PYOP[op](x if S.is_sym(x) else S.SymReal(S.term_of(x)), y)

    @staticmethod
    def fn(name, args):
        x = args[0]
        if name == "neg":
            return -1 * x if not isinstance(x, bool) else -1 * int(x)
        if name == "abs":
            return S.SymReal(S.term_of(x)).__abs__()
        if name == "sqrt":
            return S.sym_pow(x, 0.5)
        if name == "exp":
            return S.SymReal(T.uf("exp", (S.term_of(x),)))
        if name == "round1":
            return S.SymReal(T.uf("pyround", (S.term_of(x), T.const(1))))
        if name == "min":
            return S.sym_min(S.SymReal(S.term_of(x)), S.SymReal(S.term_of(args[1])))
        if name == "max":
            return S.sym_max(S.SymReal(S.term_of(x)), S.SymReal(S.term_of(args[1])))
        raise ValueError(name)

    @staticmethod
    def agg(name, xs):
        n = len(xs)
        if name == "arr_sum":
            return S.sym_sum(xs)
        if name == "arr_prod":
            r = xs[0]
            for x in xs[1:]:
                r = r * x
            return r
        if name == "arr_mean":
            return S.sym_sum(xs) / n
        if name == "arr_median":
            s = S.sym_sorted(xs)
            return s[n // 2] if n % 2 else (s[n // 2 - 1] + s[n // 2]) / 2
        if name == "arr_stddev":
            m = S.sym_sum(xs) / n
            var = S.sym_sum([(x - m) * (x - m) for x in xs]) / n
            return S.sym_pow(var, 0.5)
        if name == "arr_rank2":
            return S.sym_sorted(xs, reverse=True)[1]
        if name == "arr_size":
            return n
        raise ValueError(name)

    @staticmethod
    def ite(c, x, y):
        return S.sym_ite(c, x, y)

    @staticmethod
    def b_and(x, y):
        return S.wrap(T.and_(S.liftb(x), S.liftb(y)))

    @staticmethod
    def b_or(x, y):
        return S.wrap(T.or_(S.liftb(x), S.liftb(y)))

    @staticmethod
    def b_not(x):
        return S.wrap(T.not_(S.liftb(x)))


class FloatDom(object):
    def __init__(self, env):
        self.env = env

    def leaf(self, name):
        return self.env[name]

    @staticmethod
    def binop(op, x, y):
        return PYOP[op](x, y)

    @staticmethod
    def fn(name, args):
        x = args[0]
        if name == "neg":
            return -x
        if name == "abs":
            return abs(x)
        if name == "sqrt":
            return x ** 0.5
        if name == "exp":
            return math.exp(x)
        if name == "round1":
            return round(x, 1)
        if name == "min":
            return min(x, args[1])
        if name == "max":
            return max(x, args[1])
        raise ValueError(name)

    @staticmethod
    def agg(name, xs):
        import statistics
        n = len(xs)
        if name == "arr_sum":
            return sum(xs)
        if name == "arr_prod":
            r = 1.0
            for x in xs:
                r *= x
            return r
        if name == "arr_mean":
            return sum(xs) / n
        if name == "arr_median":
            return statistics.median(xs)
        if name == "arr_stddev":
            return statistics.pstdev(xs)
        if name == "arr_rank2":
            return sorted(xs, reverse=True)[1]
        if name == "arr_size":
            return n
        raise ValueError(name)

    @staticmethod
    def ite(c, x, y):
        return x if c else y

    @staticmethod
    def b_and(x, y):
        return bool(x) and bool(y)

    @staticmethod
    def b_or(x, y):
        return bool(x) or bool(y)

    @staticmethod
    def b_not(x):
        return not bool(x)


def ref_eval(tree, dom):
    k = tree[0]
    if k == "el":
        return dom.leaf(tree[1])
    if k == "num":
        return tree[1]
    if k == "bin":
        return dom.binop(tree[1], ref_eval(tree[2], dom), ref_eval(tree[3], dom))
    if k == "fn":
        return dom.fn(tree[1], [ref_eval(x, dom) for x in tree[2:]])
    if k == "agg":
        return dom.agg(tree[1], [dom.leaf("%s[%d]" % (tree[2], i)) for i in range(VEC[tree[2]])])
    if k == "If":
        return dom.ite(ref_eval(tree[1], dom), ref_eval(tree[2], dom), ref_eval(tree[3], dom))
    if k == "And":
        return dom.b_and(ref_eval(tree[1], dom), ref_eval(tree[2], dom))
    if k == "Or":
        return dom.b_or(ref_eval(tree[1], dom), ref_eval(tree[2], dom))
    if k == "Not":
        return dom.b_not(ref_eval(tree[1], dom))
    raise ValueError(k)


# ------------------------------------------------------------------ one tree

class PathDom(object):
    """reference evaluation with Python's own operators on the operand symbols, inside the same
    explored path as the implementation (conditions are decided consistently by the explorer)"""
    npx = None

    @staticmethod
    def leaf(name):
        return S.v(name)

    @staticmethod
    def binop(op, x, y):
        return PYOP[op](x, y)

    @staticmethod
    def fn(name, args):
        x = args[0]
        if name == "neg":
            return -x
        if name == "abs":
            return abs(x)
        if name == "sqrt":
            return x ** 0.5
        if name == "exp":
            return PathDom.npx.exp(x)
        if name == "round1":
            return round(x, 1)
        if name == "min":
            return S.sym_min(x, args[1])
        if name == "max":
            return S.sym_max(x, args[1])
        raise ValueError(name)

    agg = staticmethod(SymDom.agg)

    @staticmethod
    def ite(c, x, y):
        return x if c else y

    @staticmethod
    def b_and(x, y):
        return x and y

    @staticmethod
    def b_or(x, y):
        return x or y

    @staticmethod
    def b_not(x):
        return not x


def check_tree(tree, timeout_s, mutate=None, share=False, first=None):
    """returns (status, info): 'rejected' | 'holds' | 'violated' (info = model) | 'unknown'.
    share: equal subtrees are one Python object; first: another equation built (from the same objects) before this one"""
    m, els, vecs = new_model()
    try:
        cache = {} if share else None
        if first is not None:
            m.converter("y_first").equation = build_dsl(first, els, vecs, cache)
        dsl = build_dsl(tree, els, vecs, cache)
        x = m.converter("x")
        x.equation = dsl
    except S.SymbolicEscape as e:
        return "unknown", "engine: %s" % e
    except Exception as e:
        return "rejected", "construction: %s" % type(e).__name__
    for n in leaf_names():
        m.equations[n] = (lambda nm: (lambda t: S.v(nm)))(n)

    def run():
        m.reset_cache()
        try:
            impl = x(1.0)
        except Exception as e:
            return ("exc", e)
        try:
            ref = ref_eval(tree, PathDom)
        except (ZeroDivisionError, OverflowError, ValueError):
            return ("noref",)
        return ("val", impl, ref)
    try:
        paths = S.explore(run, max_paths=64)
    except (S.PathCapExceeded, S.SolverUnknown) as e:
        return "unknown", "explore: %r" % (e,)
    except S.SymbolicEscape as e:
        return "unknown", "engine: %s" % e
    any_value = False
    for p in paths:
        if p.exc is not None:
            return "unknown", "harness: %r" % (p.exc,)
        if p.out[0] != "val":
            continue                                     # evaluation rejected / reference undefined on this path
        any_value = True
        try:
            impl = S.term_of(p.out[1])
        except TypeError:
            return "violated", {"_nonnumeric": repr(p.out[1])}
        ref = S.term_of(p.out[2])
        v = solve.prove_equal(impl, ref, p.pc, timeout_s=timeout_s)
        if v.status == "violated":
            return "violated", solve.complete_model(v.model, impl, ref, *p.pc)
        if v.status == "unknown":
            return "unknown", v.detail
    if not any_value:
        return "rejected", "evaluation: %s" % (type(paths[0].out[1]).__name__ if paths[0].out[0] == "exc" else "noref")
    return "holds", len(paths)


def signature(tree, explained):
    ps = sorted(pairs(tree))
    hit = [p for p in ps if p in explained]
    if hit:
        return hit[0], True
    if len(ps) == 1:
        return ps[0], False
    if not ps:
        return "op:" + head(tree), False
    if len(ps) <= 3:
        return "+".join(ps), False
    return "tree:" + show(tree), False


# ------------------------------------------------------------------ replay (real code, floats)

ALT_ENVS = [
    {"a": 1.7, "b": 2.9, "c": 0.6, "d": 4.3, "e": 5.1, "f": 1.3, "g": 2.2, "h": 0.9},
    {"a": 5.5, "b": 1.25, "c": 3.75, "d": 0.5, "e": 2.5, "f": 7.5, "g": 1.5, "h": 6.25},
    {"a": -2.3, "b": 1.9, "c": -0.7, "d": 3.1, "e": -1.1, "f": 0.4, "g": 2.6, "h": -4.2},
    {"a": 0.3, "b": 0.8, "c": 1.9, "d": 2.4, "e": 0.2, "f": 3.3, "g": 0.7, "h": 1.1},
]


def _tree_from_json(t):
    if isinstance(t, list):
        return tuple(_tree_from_json(x) for x in t)
    return t


def run_concrete(tree, env, share=False, first=None):
    """(impl outcome, ref outcome) on the unmodified code with plain floats"""
    m, els, vecs = new_model()
    for n in leaf_names():
        val = float(env.get(n, 1.0))
        m.equations[n] = (lambda vv: (lambda t: vv))(val)
    try:
        cache = {} if share else None
        if first is not None:
            m.converter("y_first").equation = build_dsl(first, els, vecs, cache)
        x = m.converter("x")
        x.equation = build_dsl(tree, els, vecs, cache)
        impl = x(1.0)
    except Exception as e:
        impl = e
    full = {n: float(env.get(n, 1.0)) for n in leaf_names()}
    try:
        ref = ref_eval(tree, FloatDom(full))
    except Exception as e:
        ref = e
    return impl, ref


def differs(impl, ref):
    if isinstance(impl, Exception):
        return False                       # rejected loudly: allowed by the property
    if isinstance(ref, Exception):
        return False                       # reference undefined at this point: not a witness
    try:
        i, r = float(impl), float(ref)
    except Exception:
        return True
    if isinstance(i, complex) or isinstance(r, complex):
        return False
    if i != i or r != r or abs(i) == float("inf") or abs(r) == float("inf"):
        return False
    return abs(i - r) > 1e-9 * (1 + abs(r))


GRID = [0.25, 1.0, 3.0, -2.0, 0.5]


def tree_leaves(t, out=None):
    if out is None:
        out = []
    if t[0] == "el":
        if t[1] not in out:
            out.append(t[1])
    elif t[0] == "agg":
        for i in range(VEC[t[2]]):
            n = "%s[%d]" % (t[2], i)
            if n not in out:
                out.append(n)
    elif t[0] != "num":
        for x in t[1:]:
            if isinstance(x, tuple):
                tree_leaves(x, out)
    return out


def replay(case):
    """the solver decided that the generated code and the python expression are different functions of
    the operands; the replay exhibits a concrete operand assignment on the unmodified code: the solver's
    model first, then fixed alternatives, then a small grid (needed when the difference sits behind an
    uninterpreted % / ** / round whose model interpretation is not Python's)"""
    tree = _tree_from_json(case["tree"])
    share, first = case.get("share", False), (_tree_from_json(case["first"]) if case.get("first") else None)
    envs = [case["env"]] + ALT_ENVS
    names = tree_leaves(tree)
    if len(names) <= 5:
        envs = envs + [dict(zip(names, vals)) for vals in itertools.product(GRID, repeat=len(names))]
    for env in envs:
        impl, ref = run_concrete(tree, env, share, first)
        if isinstance(impl, complex) or isinstance(ref, complex):
            continue
        if differs(impl, ref):
            return True, "tree %s%s env %s: DSL value %r, python value %r" % (
                show(tree), " (sub-expressions shared%s)" % (", after %s was defined" % show(first) if first else "") if share else "", env, impl, ref)
    return False, "tree %s: DSL and python agree on %d assignments" % (show(tree), len(envs))


# ------------------------------------------------------------------ canaries

def canary_mul_unparenthesised():
    """MultiplicationOperator.term without parentheses (in-memory mutant)"""
    import BPTK_Py.sddsl.operators as ops
    orig = ops.MultiplicationOperator.term

    def bad(self, time="t"):
        return self.element_1.term(time) + "*" + self.element_2.term(time)
    ops.MultiplicationOperator.term = bad
    try:
        tree = relabel(("bin", "mul", ("el", "?"), ("bin", "add", ("el", "?"), ("el", "?"))))
        st, info = check_tree(tree, 10)
        ok = st == "violated"
    finally:
        ops.MultiplicationOperator.term = orig
    return ok


def canary_min_swapped():
    """min() rendered as max()"""
    import BPTK_Py.sddsl.operators as ops
    orig = ops.MinOperator.term
    ops.MinOperator.term = ops.MaxOperator.term
    try:
        st, info = check_tree(relabel(("fn", "min", ("el", "?"), ("el", "?"))), 10)
        ok = st == "violated"
    finally:
        ops.MinOperator.term = orig
    return ok


# ------------------------------------------------------------------ main

def run(tier):
    import BPTK_Py.sddsl.operators as ops
    import BPTK_Py.sddsl.element as el
    import BPTK_Py.sddsl.functions as fns
    from BPTK_Py import Model
    rep = harness.Report(PID, tier, "translation_validation", MODULE)
    rep.encoded(ops.AdditionOperator.term, ops.SubtractionOperator.term, ops.MultiplicationOperator.term,
                ops.DivisionOperator.term, ops.NumericalMultiplicationOperator.term, ops.PowerOperator.term,
                ops.ModOperator.term, ops.ComparisonOperator.term, ops.UnaryOperator.term, ops.AbsOperator.term,
                ops.MaxOperator.term, ops.MinOperator.term, ops.Exp.term, ops.Round.term, ops.Sqrt.term,
                ops.If.term, ops.And.term, ops.Or.term, ops.Not.term, ops._array_resolve,
                ops._matrix_element_to_string, ops.ArrayRankOperator.term, ops.extractTerm,
                el.Element.generate_function, el.Element.term, Model.memoize, fns.min, fns.max)
    timeout = 20 if tier == "quick" else 120
    trees = family(tier, harness.seed())
    stubs = harness.Stubs()
    PathDom.npx = harness.install_sd_stubs(stubs)
    counts = {"holds": 0, "violated": 0, "rejected": 0, "unknown": 0}
    samples = []
    violated = []
    try:
        shared_bad = []
        for tree, first in shared_family():
            st, info = check_tree(tree, timeout, share=True, first=first)
            counts[st] += 1
            if st == "violated":
                shared_bad.append((tree, first, info))
            elif st == "unknown":
                rep.inconcl("shared tree %s: %s" % (show(tree), info))
        for tree in trees:
            st, info = check_tree(tree, timeout)
            counts[st] += 1
            if st == "violated":
                violated.append((tree, info))
            elif st == "unknown":
                rep.inconcl("tree %s: %s" % (show(tree), info))
            if len(samples) < 12 and (len(samples) < 6 or st != "holds"):
                samples.append({"tree": show(tree), "verdict": st})
        # canaries
        rep.canary("MultiplicationOperator.term-without-parentheses", canary_mul_unparenthesised())
        rep.canary("min-rendered-as-max", canary_min_swapped())
    finally:
        stubs.restore()
    # signatures: single-pair trees explain larger ones
    explained = set()
    for tree, info in violated:
        ps = pairs(tree)
        if len(ps) == 1:
            explained |= ps
    for tree, info in violated:
        sig, _ = signature(tree, explained)
        env = {k: float(v) for k, v in info.items() if isinstance(v, (Fraction, int, float)) and not isinstance(v, bool)}
        rep.candidate(sig, {"tree": tree, "env": env}, "DSL value of %s differs from the python expression" % show(tree))
    for tree, first, info in shared_bad:
        env = {k: float(v) for k, v in info.items() if isinstance(v, (Fraction, int, float)) and not isinstance(v, bool)}
        rep.candidate("shared:%s" % head(tree[2] if tree[0] == "bin" and tree[2][0] != "el" else tree), {"tree": tree, "env": env, "share": True, "first": first},
                      "DSL value of %s with shared sub-expression objects%s differs from the python expression" % (
                          show(tree), " (after %s was defined from the same objects)" % show(first) if first else ""))
    rep.assume("operand values are reals (binary64 rounding of values is outside the claim)",
               "%d expressions in which a compound sub-expression object is used more than once, in one equation or across two" % len(shared_family()),
               "** with non-small exponent, %, exp, round are uninterpreted functions (congruence only); sqrt(x) is pow(x, 1/2) on both sides",
               "max/min/sorted/np.mean/median/std in the generated-code namespace are ITE-merging stubs with Python semantics",
               "numeric literals are the concrete values %s" % NUMS,
               "depth bound: exhaustive depth<=2 (one or two compound operands); thorough adds depth-3 spines and seeded deeper shapes")
    rep.coverage.update({
        "programs": len(trees) + len(shared_family()), "disagreements_checked": len(violated) + len(shared_bad), "samples": samples,
        "verdicts": counts, "exhaustive": True,
        "bounds": "expression trees depth<=2 over %d binary ops, %d unary fns, %d aggregates, If/And/Or/Not%s" % (
            len(ARITH + CMPS), len(FN1), len(AGGS), "; depth-3 spines + 1500 seeded shapes" if tier == "thorough" else ""),
        "outside": "depth beyond the bound; values at discontinuities; rounding of binary64 values",
    })
    return rep.finish()
