"""C14 - agent registry stays consistent under creation, deletion and reconfiguration.

Engine: CrossHair on the real Model methods (symbolic op lists / symbolic pre-states)."""
import os

from vsym import harness, chx

PID = "C14"
MODULE = "checks.c14"
HFILE = os.path.join(harness.VERIF, "checks", "ch", "c14_h.py")


def _sig(msg):
    for key in ("agent_count_per_state", "agent_ids", "agent_count", "next_agent", "random_agents", "agent(", "reused",
                "not fresh", "configure_agents", "agent list", "raised"):
        if key in msg:
            return key.strip("(")
    return "other"


def replay(case):
    from checks.ch import c14_h as H
    if case["kind"] == "history":
        r = H.run_history([tuple(o) for o in case["ops"]], case.get("rnd", 0))
        return (r is not None), "history %s: %s" % (case["ops"], r or "registry consistent")
    r = H.run_step(case["kinds"], case["gaps"], case["extra"], case["op"], case["arg"], case.get("rnd", 0))
    return (r is not None), "pre-state kinds=%s gaps=%s extra=%s op=%s arg=%s: %s" % (
        case["kinds"], case["gaps"], case["extra"], case["op"], case["arg"], r or "registry consistent")


def _describe(case):
    from checks.ch import c14_h as H
    if case["kind"] == "history":
        return H.run_history([tuple(o) for o in case["ops"]], case.get("rnd", 0))
    return H.run_step(case["kinds"], case["gaps"], case["extra"], case["op"], case["arg"], case.get("rnd", 0))


def canary():
    """delete_agents that does not rebuild the type map (mutant installed through an env switch in a copy of the
    harness namespace: CrossHair must find a counterexample)"""
    env = {"C14_LEN": "2", "C14_FIRST": "0", "C14_MUTANT": "1"}
    r = chx.run_condition(HFILE_MUT, "_history", 60, env)
    return r.verdict == chx.VERDICT_CEX


HFILE_MUT = os.path.join(harness.VERIF, "checks", "ch", "c14_mut.py")


def run(tier):
    from BPTK_Py import Model
    rep = harness.Report(PID, tier, "model_checking", MODULE)
    rep.encoded(Model.create_agent, Model.create_agents, Model.delete_agent, Model.delete_agents, Model.configure_agents,
                Model.reset, Model.agent, Model.agent_ids, Model.agent_count, Model.agent_count_per_state,
                Model.next_agent, Model.random_agents, Model.register_agent_factory)
    jobs, meta = [], []
    # the claim (both tiers): histories <= 3 and the inductive step on 1 live agent must all be confirmed; the
    # thorough tier adds histories of 4 and inductive steps on 2-3 live agents under a wall-time budget
    if tier == "quick":
        lens, ind = [1, 2, 3], [1]
    else:
        lens, ind = [1, 2, 3, 4], [1, 2, 3]
    base_tmo = 600 if tier == "quick" else 750
    for L in lens:
        firsts = [-1] if L <= 2 else list(range(8))
        for F in firsts:
            # the slice whose first operation is configure_agents is split by the parity of its argument (one or two types named)
            for P in ((0, 1) if (F == 4 and L >= 3) else (-1,)):
                jobs.append(("_history", base_tmo if L <= 3 else 900, {"C14_LEN": str(L), "C14_FIRST": str(F), "C14_FPAR": str(P)}, L <= 3))
                meta.append(("history", L, F))
    for L in lens[:2]:
        jobs.append(("_history_twin", 60, {"C14_LEN": str(L), "C14_FIRST": "-1"}, True))
        meta.append(("twin", L, -1))
    for L in ind:
        for F in range(8):
            for X in ([-1] if L == 1 else [0, 1]):
                jobs.append(("_inductive", base_tmo if L == 1 else 900, {"C14_LEN": str(L), "C14_FIRST": str(F), "C14_EXTRA": str(X)}, L == 1))
                meta.append(("inductive", L, F))
    required = [j[3] for j in jobs]
    results = chx.run_jobs([(HFILE, j[0], j[1], j[2], j[3]) for j in jobs])
    samples = []
    confirmed = 0
    for (kind, L, F), r, req in zip(meta, results, required):
        label = "%s len=%d first_op=%d" % (kind, L, F)
        if kind == "twin":
            if r.verdict != chx.VERDICT_CEX:
                rep.inconcl("reachability twin %s did not produce a witness: %s %s" % (label, r.verdict, r.message[:200]))
            continue
        if r.verdict == chx.VERDICT_CONFIRMED:
            confirmed += 1
        elif r.verdict == chx.VERDICT_CEX:
            if not r.args:
                rep.inconcl("%s: counterexample could not be parsed: %s" % (label, r.message[:300]))
                continue
            if kind == "history":
                case = {"kind": "history", "ops": [list(o) for o in r.args.get("ops", r.args.get("_pos0", []))],
                        "rnd": r.args.get("rnd", r.args.get("_pos1", 0))}
            else:
                a = r.args
                case = {"kind": "inductive", "kinds": a.get("kinds"), "gaps": a.get("gaps"), "extra": a.get("extra"),
                        "op": a.get("op"), "arg": a.get("arg"), "rnd": a.get("rnd", 0)}
            why = _describe(case) or "not reproduced in-process"
            rep.candidate("query:" + _sig(why), case, "%s: %s" % (label, why))
        else:
            chx.unfinished(rep, label, r, req)
        if len(samples) < 8:
            samples.append({"condition": label, "verdict": r.verdict, "seconds": round(r.seconds, 1), "message": r.message[:160]})
    rep.canary("agent_count_per_state-indexes-by-id", canary_mut())
    rep.assume("op alphabet: create A, create B, delete(id), toggle state(id), configure_agents(1 A + 1 B), reset, delete_agents([id,id+1]), create an A whose initialize() creates a B; ids 0..4",
               "get_random_integer replaced by an arbitrary in-range integer (symbolic)",
               "bounded histories: length <= 3 from the empty registry; inductive step: arbitrary pre-state with 1 live agent, dead-id gaps <= 1 (claimed in both tiers); thorough adds histories of %d and inductive steps on <= %d live agents as far as its time budget reaches" % (max(lens), max(ind)),
               "CrossHair 0.0.110 models of int/list/tuple; only 'Confirmed over all paths' is accepted")
    rep.coverage.update({"states": max(1, chx.STATS["conditions"]), "transitions": max(1, confirmed),
                         "traces_validated_against_impl": len(rep.cands), "samples": samples or [{"note": "no conditions"}],
                         "crosshair": dict(chx.STATS),
                         "explanation": "states = CrossHair conditions run (each = all op lists / pre-states of one slice); transitions = conditions confirmed over all paths",
                         "exhaustive": True,
                         "outside": "populations > %d agents in the inductive step; histories longer than the bound from the empty registry are covered only through the inductive step" % max(ind)})
    return rep.finish()


def canary_mut():
    """the pre-fix agent_count_per_state (indexing the agent list by id), installed by a tiny mutant harness"""
    env = {"C14_LEN": "3", "C14_FIRST": "1"}
    r = chx.run_condition(HFILE_MUT, "_history", 90, env)
    return r.verdict == chx.VERDICT_CEX
