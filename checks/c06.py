"""C06 - scenarios are isolated from each other and from the model they were created from.

Engine: vsym (Real mode).  Histories of register / run / session / step-with-settings / reset-cache
operations over three scenarios in two managers that share one base Model object run on the REAL
code; every setting value delivered by an operation is a fresh symbol.  After every operation each
scenario's batch results and the base model's own values must equal a freshly built model with
exactly that scenario's settings: a leak shows up as a foreign symbol in a result term, and z3
produces an assignment that separates them even where concrete defaults would coincide."""
import copy
import itertools
from fractions import Fraction

from vsym import terms as T, sym as S, solve, harness
from checks import scen

PID = "C06"
MODULE = "checks.c06"
MS, ME, MD = 0.0, 3.0, 1.0
SCEN = {"A": "sm1", "B": "sm1", "C": "sm2", "D": "sm1", "F": "sm2"}
OPS = ["run", "sess_const", "step_const", "sess_points", "step_points", "reset", "open_step", "register_late",
       "multi_const", "multi_points", "rest_dt", "rest_start", "rest_points", "sess_observe"]


def histories(tier):
    alphabet = [(o, x) for o in OPS if o != "register_late" and not o.startswith(("multi", "rest_")) for x in ("A", "B", "C")] + [("register_late", "E")]
    # one session over ALL scenarios of the manager, step settings addressed to one of them: the others' step results
    alphabet += [(o, x) for o in ("multi_const", "multi_points") for x in ("A", "B", "D")]
    # the REST /run endpoint of a server built on this bptk object: settings without constants (run specs, points)
    alphabet += [(o, x) for o in ("rest_dt", "rest_start", "rest_points") for x in ("A", "B")]
    # a session on ONE scenario with the session's start/dt left to be derived: its steps must follow that scenario's own run specs
    alphabet += [("sess_observe", x) for x in ("A", "B", "D")]
    # F has neither constants nor points of its own, and its manager has no base settings: step settings on it must still end with the session
    alphabet += [(o, "F") for o in ("step_const", "step_points", "open_step")]
    out = [[a] for a in alphabet]
    out += [[a, b] for a in alphabet for b in alphabet]
    if tier == "thorough":
        out += [[a, b, c] for a in alphabet for b in alphabet for c in alphabet
                if a[0] not in ("run", "reset") and (b[0] != "run")]
    else:
        core = [("step_const", "A"), ("step_points", "B"), ("sess_points", "C"), ("open_step", "B"), ("sess_const", "B")]
        out += [[a, b, c] for a in core for b in core for c in [("reset", "A"), ("run", "B"), ("step_const", "C")]]
    return out


class World(object):
    def __init__(self, mode, env=None):
        import BPTK_Py
        self.mode, self.env = mode, env or {}
        self.n = 0
        self.base = scen.base_model(MS, ME, MD, name="shared")
        self.b = BPTK_Py.bptk()
        # manager sm1 carries base constants and base points: defaults for every scenario that does not override them
        bc = self.const("base_c")
        bp2 = self.points("base_p2", xs=(0.0, 4.0))
        self.base_settings = ({"c": bc}, {"pts2": bp2})
        self.b.register_scenario_manager({"sm1": {"model": self.base, "base_constants": {"c": bc}, "base_points": {"pts2": bp2}}})
        self.b.register_scenario_manager({"sm2": {"model": self.base}})
        ak = self.const("regA_k")
        cp = self.points("regC")
        self.b.register_scenarios(scenario_manager="sm1", scenarios={"A": {"constants": {"k": ak}}, "B": {}, "D": {}})
        # sm2 has no base settings: C has no constants of its own, F has neither constants nor points
        self.b.register_scenarios(scenario_manager="sm2", scenarios={"C": {"points": {"pts": cp}}, "F": {}})
        # persistent (constants, points) per scenario
        self.settings = {"A": ({"k": ak, "c": bc}, {"pts2": bp2}), "B": ({"c": bc}, {"pts2": bp2}), "D": ({"c": bc}, {"pts2": bp2}),
                         "C": ({}, {"pts": cp}), "F": ({}, {})}
        self.managers = dict(SCEN)
        self.open = None
        self.in_session = {}         # results other scenarios reported inside a multi-scenario session: {who: (got, want)}
        self.specs = {}              # scenario -> (start, stop, dt) where a REST request changed them
        self.client = None

    def const(self, name):
        if self.mode == "sym":
            return scen.sym_const(name)
        return float(self.env.get(name, _default(name)))

    def points(self, prefix, xs=(0.0, 2.0, 4.0, 50.0)):
        if self.mode == "sym":
            return scen.sym_points(prefix, xs)
        return [[x, float(self.env.get("%s_y%d" % (prefix, i), _default("%s_y%d" % (prefix, i))))] for i, x in enumerate(xs)]

    def fresh(self):
        self.n += 1
        return "op%d" % self.n

    def apply(self, op, x):
        b = self.b
        tag = self.fresh()
        if op == "register_late":
            # a scenario registered after others were re-parameterised starts from the manager's base settings only
            b.register_scenarios(scenario_manager="sm1", scenarios={x: {}})
            self.managers[x] = "sm1"
            self.settings[x] = (dict(self.base_settings[0]), dict(self.base_settings[1]))
            return
        mgr = self.managers[x]
        if op == "run":
            b.run_scenarios(scenarios=[x], scenario_managers=[mgr], equations=scen.EQS)
        elif op == "reset":
            b.reset_scenario_cache(scenario_manager=mgr, scenario=x)
        elif op in ("sess_const", "sess_points"):
            if op == "sess_const":
                v = self.const(tag + "_k")
                st = {"constants": {"k": v}}
                self.settings[x][0]["k"] = v
            else:
                v = self.points(tag)
                st = {"points": {"pts": v}}
                self.settings[x][1]["pts"] = v
            b.begin_session(scenarios=[x], scenario_managers=[mgr], equations=scen.EQS, settings={mgr: {x: st}}, starttime=MS, dt=MD)
            b.run_step()
            b.end_session()
            self.open = None
        elif op in ("step_const", "step_points", "open_step"):
            b.begin_session(scenarios=[x], scenario_managers=[mgr], equations=scen.EQS, starttime=MS, dt=MD)
            if op == "step_const":
                st = {mgr: {x: {"constants": {"c": self.const(tag + "_c")}}}}
            elif op == "step_points":
                st = {mgr: {x: {"points": {"pts2": self.points(tag)}}}}
            else:
                st = {mgr: {x: {"constants": {"c": self.const(tag + "_c")}, "points": {"pts": self.points(tag)}}}}
            b.run_step(settings=st)
            b.run_step()
            if op != "open_step":
                b.end_session()
                self.open = None
            else:
                self.open = x
        elif op in ("rest_dt", "rest_start", "rest_points"):
            if self.client is None:
                from BPTK_Py.server import BptkServer
                self.client = BptkServer(__name__, lambda: self.b).test_client()
            st0, en0, dt0 = self.specs.get(x, (MS, ME, MD))
            if op == "rest_dt":
                st = {"runspecs": {"dt": 0.5}}
                self.specs[x] = (st0, en0, 0.5)
            elif op == "rest_start":
                st = {"runspecs": {"starttime": 1.0}}
                self.specs[x] = (1.0, en0, dt0)
            else:
                v = self.points(tag)
                st = {"points": {"pts": v}}
                self.settings[x][1]["pts"] = v
            import json as _json
            self.client.post("/run", data=_json.dumps({"scenario_managers": [mgr], "scenarios": [x], "equations": scen.EQS,
                                                               "settings": {mgr: {x: st}}}), content_type="application/json")
        elif op == "sess_observe":
            b.begin_session(scenarios=[x], scenario_managers=[mgr], equations=scen.EQS)
            steps = [b.run_step(), b.run_step(), b.run_step()]
            b.end_session()
            self.open = None
            got = scen.merge_steps([scen.from_step(r, mgr, x) for r in steps if not (isinstance(r, dict) and r.get("msg"))])
            cs, ps = self.settings[x]
            st0, en0, dt0 = self.specs.get(x, (MS, ME, MD))
            want = scen.fresh_results(st0, en0, dt0, cs, ps)
            times = scen.grid(st0, en0, dt0)[:3]
            want = {e: {t: tv[t] for t in times} for e, tv in want.items()}
            self.in_session["%s in a session of its own" % x] = (got, want)
        elif op in ("multi_const", "multi_points"):
            names = [y for y, m in self.managers.items() if m == mgr]
            b.begin_session(scenarios=names, scenario_managers=[mgr], equations=scen.EQS, starttime=MS, dt=MD)
            if op == "multi_const":
                st = {mgr: {x: {"constants": {"c": self.const(tag + "_c"), "k": self.const(tag + "_k")}}}}
            else:
                st = {mgr: {x: {"points": {"pts2": self.points(tag), "pts": self.points(tag + "b")}}}}
            steps = [b.run_step(settings=st), b.run_step(), b.run_step()]
            b.end_session()
            self.open = None
            for y in names:
                if y == x or any(z in self.specs for z in names):
                    continue                 # (a session has ONE clock: with REST-changed run specs in the manager its grid is the session's, not the scenario's - batch observations only)
                got = scen.merge_steps([scen.from_step(r, mgr, y) for r in steps])
                cs, ps = self.settings[y]
                want = scen.fresh_results(MS, ME, MD, cs, ps)
                times = scen.grid(MS, ME, MD)[:3]
                want = {e: {t: tv[t] for t in times} for e, tv in want.items()}
                self.in_session["%s in the session stepping %s" % (y, x)] = (got, want)

    def observe(self):
        """{who: {eq: {t: v}}} for the three scenarios (batch run) and the base model"""
        out = {}
        for x, mgr in self.managers.items():
            if x == self.open:
                continue                       # a scenario with a live session is observed through its session (C09)
            df = self.b.run_scenarios(scenarios=[x], scenario_managers=[mgr], equations=scen.EQS, return_format="df")
            out[x] = scen.from_df(df, mgr, x)
        self.base.reset_cache()
        out["base"] = {e: {t: self.base.memoize(e, t) for t in scen.grid(MS, ME, MD)} for e in scen.EQS}
        for who, (got, want) in self.in_session.items():
            out[who] = got
        return out

    def expected(self):
        out = {}
        for x in self.managers:
            if x == self.open:
                continue
            cs, ps = self.settings[x]
            out[x] = scen.fresh_results(*(self.specs.get(x, (MS, ME, MD)) + (cs, ps)))
        out["base"] = scen.fresh_results(MS, ME, MD, {}, {})
        for who, (got, want) in self.in_session.items():
            out[who] = want
        self.in_session = {}
        return out


def _default(n):
    h = sum(ord(ch) * (i + 1) for i, ch in enumerate(n))
    return [1.5, 2.25, 0.75, 3.5, 0.5, 4.0, 6.5][h % 7]


def run_history(hist, mode, env=None):
    """list of (after_op_index, observed, expected)"""
    w = World(mode, env)
    out = [(-1, w.observe(), w.expected())]
    for i, (op, x) in enumerate(hist):
        w.apply(op, x)
        out.append((i, w.observe(), w.expected()))
    # a second bptk object built afterwards in the same process (another server instance, another notebook cell) starts
    # from the model's own behaviour: nothing the first one was told may show up in it
    w2 = World(mode, env)
    obs2, exp2 = w2.observe(), w2.expected()
    out.append((len(hist), {"second bptk object, " + k: v for k, v in obs2.items()}, {"second bptk object, " + k: v for k, v in exp2.items()}))
    return out


def compare(obs, exp, pc, timeout_s, numeric=False):
    for who in sorted(exp):
        got, want = obs.get(who), exp[who]
        if got is None:
            return "%s: no results" % who, None
        for e in scen.EQS:
            if got.get(e) is None:
                return "%s: equation %s missing" % (who, e), None
            if sorted(got[e]) != sorted(want[e]):
                return "%s: time grid %s, expected %s" % (who, sorted(got[e]), sorted(want[e])), None
            for t in sorted(want[e]):
                if numeric:
                    a, b = float(got[e][t]), float(want[e][t])
                    if abs(a - b) > 1e-9 * (1 + abs(b)):
                        return "%s: %s(%s) = %r, fresh model with its own settings gives %r" % (who, e, t, a, b), None
                else:
                    ti, tr = S.term_of(got[e][t]), S.term_of(want[e][t])
                    v = solve.prove_equal(ti, tr, pc, timeout_s=timeout_s)
                    if v.status == "violated":
                        foreign = sorted(set(T.free_vars(ti)) - set(T.free_vars(tr)))
                        return "%s: %s(%s) differs from the fresh model with its own settings%s" % (
                            who, e, t, (" (depends on foreign symbols %s)" % foreign) if foreign else ""), solve.complete_model(v.model, ti, tr)
                    if v.status == "unknown":
                        return "UNKNOWN " + v.detail, None
    return None


def check_history(hist, timeout_s):
    def run():
        try:
            return ("ok", run_history(hist, "sym"))
        except Exception as e:
            import traceback
            return ("exc", e, traceback.format_exc()[-500:])
    try:
        paths = S.explore(run, max_paths=8)
    except (S.PathCapExceeded, S.SolverUnknown, S.SymbolicEscape) as e:
        return "unknown", "explore: %r" % (e,)
    for p in paths:
        if p.exc is not None:
            return "unknown", "harness: %r" % (p.exc,)
        if p.out[0] == "exc":
            return "violated", {"_what": "raised %r" % (p.out[1],), "_after": -2}
        for (i, obs, exp) in p.out[1]:
            r = compare(obs, exp, p.pc, timeout_s)
            if r:
                what, mdl = r
                if what.startswith("UNKNOWN"):
                    return "unknown", what
                info = dict(mdl or {})
                info["_what"], info["_after"] = what, i
                return "violated", info
    return "holds", None


def replay(case):
    hist = [tuple(x) for x in case["hist"]]
    for env in (case.get("env", {}), {}, {"regA_k": 4.5, "op1_k": 0.25, "op1_c": 7.0, "op2_c": 3.0, "op1_y1": 9.0, "op2_y1": 8.0, "regC_y1": 0.5}):
        try:
            res = run_history(hist, "float", env)
        except Exception as e:
            return True, "history %s raised %r" % (hist, e)
        for (i, obs, exp) in res:
            r = compare(obs, exp, (), 0, numeric=True)
            if r:
                return True, "history %s, after operation %d: %s" % (hist, i, r[0])
    return False, "history %s: every scenario and the base model equal their fresh models" % (hist,)


def signature(hist, info):
    i = info.get("_after", -1)
    what = info.get("_what", "")
    who = what.split(":")[0]
    if i == -1:
        return "initial:%s" % who
    if i == -2:
        return "raised:%s" % "/".join(o for o, x in hist)
    if i >= len(hist):
        return "leak:%s->second-bptk-object" % (hist[-1][0] if hist else "none")
    if "session of its own" in who:
        return "leak:%s->own-session-clock" % (hist[i - 1][0] if i > 0 else "initial")
    op, x = hist[i]
    M = dict(SCEN, E="sm1")
    rel = "self" if who == x else ("base" if who == "base" else ("sibling" if M.get(who) == M.get(x) else "other-manager"))
    return "leak:%s->%s" % (op, rel)


def canary_shared_points():
    """clones share the base model's points dictionary (pre-fix behaviour)"""
    import BPTK_Py.scenariomanager.scenario_manager_sd as sm
    orig = sm.ScenarioManagerSd.get_cloned_model

    def bad(self, model):
        m = orig(self, model)
        if m is not None:
            m.points = model.points
        return m
    sm.ScenarioManagerSd.get_cloned_model = bad
    try:
        st, info = check_history([("step_points", "B")], 10)
    finally:
        sm.ScenarioManagerSd.get_cloned_model = orig
    return st == "violated"


def canary_shared_equations():
    """clones share the equations table of the base model"""
    import BPTK_Py.scenariomanager.scenario_manager_sd as sm
    orig = sm.ScenarioManagerSd.get_cloned_model

    def bad(self, model):
        m = orig(self, model)
        if m is not None:
            m.equations = model.equations
        return m
    sm.ScenarioManagerSd.get_cloned_model = bad
    try:
        st, info = check_history([("run", "A")], 10)
    finally:
        sm.ScenarioManagerSd.get_cloned_model = orig
    return st == "violated"


_G = {}


def _task(h):
    return check_history(h, _G["timeout"])


def run(tier):
    from BPTK_Py.scenariomanager.scenario import SimulationScenario
    from BPTK_Py.scenariomanager.scenario_manager_sd import ScenarioManagerSd
    from BPTK_Py.scenariorunners.sd_runner import SdRunner
    from BPTK_Py.sdsimulation.sd_simulation import SdSimulation
    from BPTK_Py.bptk import bptk
    rep = harness.Report(PID, tier, "model_checking", MODULE)
    rep.encoded(ScenarioManagerSd.get_cloned_model, ScenarioManagerSd.add_scenarios, SimulationScenario.__init__,
                SimulationScenario.configure_settings, SimulationScenario.reset_cache, SdRunner._run_scenarios,
                SdRunner.run_scenario_step, SdSimulation.change_equation, SdSimulation.change_points, bptk.begin_session,
                bptk.run_step, bptk.end_session, bptk.reset_scenario_cache, bptk.run_scenarios)
    _G["timeout"] = 20 if tier == "quick" else 60
    stubs = harness.Stubs()
    harness.install_sd_stubs(stubs)
    scen.install_json_hooks(stubs)
    hs = histories(tier)
    counts = {"holds": 0, "violated": 0, "unknown": 0}
    samples, bad = [], []
    try:
        results = harness.pmap(_task, hs, fresh_process=True)
        for h, (r, err) in zip(hs, results):
            st, info = ("unknown", err) if err else r
            counts[st] += 1
            if st == "violated":
                bad.append((h, info))
            elif st == "unknown":
                rep.inconcl("history %s: %s" % (h, info))
            if len(samples) < 8 and (len(h) >= 2 or st != "holds"):
                samples.append({"history": h, "verdict": st})
        rep.canary("clones-share-points-dict", canary_shared_points())
        rep.canary("clones-share-equations-table", canary_shared_equations())
    finally:
        stubs.restore()
    seen = {}
    for h, info in sorted(bad, key=lambda x: len(x[0])):
        sig = signature(h, info)
        if sig in seen:
            continue
        seen[sig] = 1
        env = {k: float(v) for k, v in info.items() if isinstance(v, (Fraction, int, float)) and not isinstance(v, bool)}
        rep.candidate(sig, {"hist": [list(x) for x in h], "env": env}, "history %s, after op %s: %s" % (h, info.get("_after"), info.get("_what")))
    rep.assume("three scenarios (A registers constant k; B registers nothing; C in a second manager registers points) over ONE shared base Model object",
               "operations: batch run, session begun with constant/points settings, step with constant/points settings (session then ended), reset cache, session left open after a step with settings",
               "settings given when a session is begun are scenario settings (they persist); settings given with a step live for that session only; a scenario with a live session is not observed through batch runs",
               "every delivered value is a fresh symbol; oracle = freshly built model with the scenario's own settings")
    rep.coverage.update({"states": len(hs), "transitions": max(1, counts["holds"]), "traces_validated_against_impl": len(seen),
                         "samples": samples, "verdicts": counts, "exhaustive": True,
                         "explanation": "states = operation histories (exhaustive up to length 2 over 21 operations; selected/extended length 3); every state checks all scenarios and the base model after every operation",
                         "outside": "arrayed elements (shared _elements tables), more than 3 scenarios, true concurrency, REST-delivered settings (covered per cell in C07)"})
    return rep.finish()
