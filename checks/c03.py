"""C03 - the XMILE transpiler preserves the meaning of every supported equation.

Engine: vsym (Real mode).  Generated .stmx documents go through the REAL compile_xmile pipeline (PEG
parser, visitor, all plug-ins, generator, template); the generated simulation_model's equations are
evaluated with symbolic leaf values and z3 decides  transpiled == XMILE reference semantics  for all
values; spelling variants of an equation must yield equal terms; equations outside the supported grammar
must fail loudly."""
import itertools
import os
import random as _random
import shutil
import tempfile
from fractions import Fraction

from vsym import terms as T, sym as S, solve, harness
from checks import xmile as X

PID = "C03"
MODULE = "checks.c03"

LEAVES = ["a", "b", "c_var", "Dd"]
DECL = {"a": "a", "b": "b", "c_var": "c var", "Dd": "Dd"}          # names as declared in the document
PROBE = {"a": 1001.25, "b": 1002.5, "c_var": 1003.75, "Dd": 1004.125}
START, STOP, DT, TEVAL = 0.0, 4.0, 1.0, 2.0
OPS = ["+", "-", "*", "/", "^", "MOD"]
A, B, C, D = ("id", "a"), ("id", "b"), ("id", "c_var"), ("id", "Dd")
N2, N05, N3 = ("num", "2"), ("num", "0.5"), ("num", "3")
FN1 = ["ABS", "SQRT", "EXP", "LN", "LOG10", "INT", "ROUND", "SIN", "COS", "TAN"]


def bin_(op, l, r):
    return ("bin", op, l, r)


def equations(tier, seed):
    eqs = []
    for o1 in OPS:
        eqs.append(bin_(o1, A, B))
        eqs.append(bin_(o1, A, N2))
        eqs.append(bin_(o1, N3, B))
        for o2 in OPS:
            eqs.append(bin_(o2, bin_(o1, A, B), C))                 # (a o1 b) o2 c   - parentheses only where XMILE needs them
            eqs.append(bin_(o1, A, bin_(o2, B, C)))                 # a o1 (b o2 c)
            eqs.append(bin_(o2, ("paren", bin_(o1, A, B)), C))      # explicit redundant / needed parentheses
            eqs.append(bin_(o1, A, ("paren", bin_(o2, B, C))))
    for o1, o2, o3 in itertools.product(OPS, repeat=3):
        if tier == "thorough" or (OPS.index(o1) + 2 * OPS.index(o2) + 3 * OPS.index(o3)) % 4 == 0:
            eqs.append(bin_(o3, bin_(o2, bin_(o1, A, B), C), D))    # left spine
            eqs.append(bin_(o1, A, bin_(o2, B, bin_(o3, C, D))))    # right spine
            eqs.append(bin_(o2, bin_(o1, A, B), bin_(o3, C, D)))    # balanced
    # unary minus
    for o in OPS:
        eqs.append(bin_(o, ("neg", A), B))
        eqs.append(bin_(o, A, ("paren", ("neg", B))))
        eqs.append(("neg", bin_(o, A, B)))
        eqs.append(("neg", ("paren", bin_(o, A, B))))
    # negative numeric literals (one token in the grammar), bare and parenthesised, in every operand position
    NM2, NM05 = ("num", "-2"), ("num", "-0.5")
    for o in OPS:
        for lit in (NM2, NM05):
            eqs.append(bin_(o, ("paren", lit), N2))
            eqs.append(bin_(o, ("paren", lit), A))
            eqs.append(bin_(o, A, ("paren", lit)))
            eqs.append(bin_(o, N3, ("paren", lit)))
        eqs.append(bin_("*", bin_(o, ("paren", NM2), N2), A))
        eqs.append(bin_("+", A, bin_(o, ("paren", NM05), N2)))
    eqs.append(("call", "MAX", bin_("^", ("paren", NM2), N2), A))
    eqs.append(("if", ("cmp", ">", bin_("^", ("paren", NM2), N2), A), B, C))
    eqs.append(("call", "ABS", ("paren", NM2)))
    eqs.append(bin_("^", ("paren", ("paren", NM2)), N2))
    # conditionals
    cmps = [("cmp", op, A, B) for op in X.CMP]
    for cnd in cmps:
        eqs.append(("if", cnd, C, D))
        eqs.append(("if", cnd, bin_("+", C, D), bin_("-", C, D)))
        eqs.append(bin_("+", A, ("if", cnd, C, D)))
        eqs.append(bin_("*", ("paren", ("if", cnd, C, D)), A))
        eqs.append(("if", ("not", cnd), C, D))                  # NOT over each comparison (operands may be equal)
        eqs.append(("if", ("and", ("not", cnd), ("cmp", "<=", C, D)), A, N2))
    c1, c2, c3 = ("cmp", ">", A, B), ("cmp", "<=", C, D), ("cmp", "=", A, C)
    for cnd in [("and", c1, c2), ("or", c1, c2), ("and", c1, ("and", c2, c3)), ("or", ("and", c1, c2), c3), ("or", c1, ("and", c2, c3)),
                ("and", ("or", c1, c2), c3), ("not", c1), ("and", ("not", c1), c2), ("or", c2, ("not", c3)),
                ("cmp", ">", bin_("+", A, B), bin_("*", C, D)), ("cmp", "<>", bin_("-", A, B), C)]:
        eqs.append(("if", cnd, A, B))
        eqs.append(("if", cnd, bin_("-", A, bin_("-", B, C)), N2))
    eqs.append(("if", c1, ("if", c2, A, B), ("if", c3, C, D)))
    eqs.append(("if", c1, A, ("if", c2, B, C)))
    # built-ins with compound arguments, and as operands
    inner = [bin_("+", A, B), bin_("-", A, B), bin_("*", A, B), bin_("/", A, B), ("neg", A), A]
    for f in FN1:
        for x in inner:
            eqs.append(("call", f, x))
        eqs.append(bin_("*", ("call", f, A), B))
        eqs.append(bin_("-", C, ("call", f, bin_("+", A, B))))
        eqs.append(bin_("^", ("call", f, A), N2))
        eqs.append(bin_("/", B, ("call", f, bin_("-", A, C))))
    for f in ("MIN", "MAX"):
        eqs.append(("call", f, A, B))
        eqs.append(("call", f, bin_("+", A, B), bin_("*", C, D)))
        eqs.append(("call", f, A, B, C))
        eqs.append(bin_("-", D, ("call", f, A, bin_("-", B, C))))
        eqs.append(bin_("^", ("call", f, A, B), N2))
        eqs.append(("call", f, ("call", "ABS", A), ("call", "SQRT", bin_("+", B, C))))
    for args in [(A, B), (bin_("+", A, B), bin_("+", C, A)), (A, bin_("-", B, C)), (bin_("*", A, B), C), (A, B, C),
                 (bin_("+", A, B), bin_("-", C, D), bin_("*", A, D)), (bin_("-", A, B), C, bin_("+", D, A))]:
        eqs.append(("call", "SAFEDIV") + args)
        eqs.append(bin_("+", ("call", "SAFEDIV") + args, D))
        eqs.append(bin_("*", D, ("call", "SAFEDIV") + args))
    for h, tm in [(A, N2), (bin_("+", A, B), N2), (A, ("num", "1")), (bin_("*", A, B), ("num", "3")), (A, bin_("+", N2, ("num", "1")))]:
        eqs.append(("call", "STEP", h, tm))
        eqs.append(bin_("-", C, ("call", "STEP", h, tm)))
        eqs.append(bin_("*", ("call", "STEP", h, tm), D))
    for sp in (("time",), ("dt",), ("starttime",), ("stoptime",), ("pi",)):
        eqs.append(sp)
        eqs.append(bin_("*", A, sp))
        eqs.append(bin_("-", sp, bin_("-", A, B)))
        eqs.append(bin_("^", sp, N2))
    if tier == "thorough":
        rnd = _random.Random(seed)
        pool = list(eqs)
        for _ in range(1200):
            x, y = rnd.choice(pool), rnd.choice(pool)
            if x[0] in ("if",):
                x = ("paren", x)
            if y[0] in ("if",):
                y = ("paren", y)
            eqs.append(bin_(rnd.choice(OPS), x, y))
    seen, out = set(), []
    for e in eqs:
        if e not in seen:
            seen.add(e)
            out.append(e)
    return out


def variants(eq):
    """spellings of the same equation that must give equal terms"""
    styles = [X.Style(ws=""), X.Style(ws="  "), X.Style(ws="\n"), X.Style(ws="\t "), X.Style(kw=str.lower, fn=str.lower),
              X.Style(kw=str.title, fn=str.title), X.Style(extra_parens=True),
              X.Style(names={"c_var": '"c var"', "a": "A", "Dd": "dd"}), X.Style(names={"c_var": "C_Var", "b": '"b"', "Dd": "DD"}),
              X.Style(names={"c_var": "c_VAR", "a": '"a"'}, ws="  ", kw=str.lower, fn=str.lower)]
    out = []
    for st in styles:
        try:
            out.append("(" + X.render(eq, st) + ")" if st.extra_parens else X.render(eq, st))
        except Exception:
            pass
    return out


UNSUPPORTED = ["a +* b", "a */ b", "a b", "MIN(a,", "a ^^ b", "(a + b", "a + b)", "UNKNOWNFN(a)", "a ! b", "a == b",
               "IF a > b THAN c ELSE Dd", "a $ b", "[a]", "3 4", "a > b THEN c", "IF a > b ELSE c", "a , b", "a MOD", "* a"]


# ------------------------------------------------------------------ running a pack

def build_doc(texts, name="pack"):
    vs = []
    for leaf in LEAVES:
        vs.append(X.aux(DECL[leaf], repr(PROBE[leaf])))
    for i, tx in enumerate(texts):
        vs.append(X.aux("x%d" % i, tx))
    return X.document(name, "0", "4", "<dt>1</dt>", vs)


def load_pack(texts, scratch):
    """compile + instantiate; returns (model, leaf key map) or raises"""
    mod = X.compile_doc(build_doc(texts), scratch)
    model = mod.simulation_model()
    keys = X.find_keys(model, PROBE, TEVAL)
    missing = [l for l in LEAVES if l not in keys]
    if missing:
        raise KeyError("leaf variables %s not found among the generated equations %s" % (missing, list(model.equations)[:8]))
    return mod, model, keys


def parses(text):
    from BPTK_Py.sdcompiler.parsers.smile.grammar import grammar
    try:
        grammar.parse(text)
        return True
    except Exception:
        return False


def eval_pack(items, scratch, timeout_s, mode="sym", env=None, prefilter=True):
    """items: list of (tag, eq AST, text).  returns {tag: (status, info)}.
    prefilter: equations the grammar does not parse are set aside so that they do not take the whole pack with them;
    the malformed equations are sent one per document WITHOUT it - there the refusal must come from the real pipeline"""
    out = {}
    todo = []
    for tag, eq, text in items:
        if prefilter and not parses(text):
            out[tag] = ("refused", "rejected by the parser")
        else:
            todo.append((tag, eq, text))
    if not todo:
        return out
    try:
        mod, model, keys = load_pack([t for _, _, t in todo], scratch)
    except S.SymbolicEscape:
        raise
    except Exception as e:
        if len(todo) == 1:
            out[todo[0][0]] = ("refused", "compile/instantiate raised %s" % type(e).__name__)
            return out
        mid = len(todo) // 2
        out.update(eval_pack(todo[:mid], scratch, timeout_s, mode, env))
        out.update(eval_pack(todo[mid:], scratch, timeout_s, mode, env))
        return out
    mx = mod.__dict__["math"]
    if mode == "sym":
        leafval = lambda l: S.v(l)
    else:
        leafval = lambda l: float(env.get(l, {"a": 1.5, "b": 2.25, "c_var": 0.75, "Dd": 3.5}[l]))
    for l in LEAVES:
        model.equations[keys[l]] = (lambda v: (lambda t: v))(leafval(l))
    ctx = X.Ctx(leafval, TEVAL, DT, START, STOP, mx)
    for i, (tag, eq, text) in enumerate(todo):
        key = "x%d" % i
        if key not in model.equations:
            out[tag] = ("violated", {"_what": "variable %s is missing from the transpiled model" % key})
            continue
        if mode != "sym":
            try:
                for k in model.memo:
                    model.memo[k] = {}
                iv = model.memoize(key, TEVAL)
            except Exception as e:
                out[tag] = ("refused", "evaluation raised %s" % type(e).__name__)
                continue
            try:
                rv = X.ev(eq, ctx)
            except Exception:
                out[tag] = ("noref", None)
                continue
            out[tag] = ("value", (iv, rv))
            continue

        def run():
            for k in model.memo:
                model.memo[k] = {}
            try:
                iv = model.memoize(key, TEVAL)
            except Exception as e:
                return ("exc", e)
            try:
                rv = X.ev(eq, ctx)
            except (ZeroDivisionError, OverflowError, ValueError):
                return ("noref",)
            return ("val", iv, rv)
        try:
            paths = S.explore(run, max_paths=64)
        except (S.PathCapExceeded, S.SolverUnknown, S.SymbolicEscape) as e:
            out[tag] = ("unknown", "explore: %r" % (e,))
            continue
        status, info, any_val, terms = "holds", None, False, []
        for p in paths:
            if p.exc is not None:
                status, info = "unknown", "harness: %r" % (p.exc,)
                break
            if p.out[0] != "val":
                continue
            any_val = True
            try:
                ti, tr = S.term_of(p.out[1]), S.term_of(p.out[2])
            except TypeError:
                status, info = "violated", {"_what": "non-numeric value %r" % (p.out[1],)}
                break
            terms.append((p.pc, ti))
            v = solve.prove_equal(ti, tr, p.pc, timeout_s=timeout_s)
            if v.status == "violated":
                status, info = "violated", dict(solve.complete_model(v.model, ti, tr, *p.pc), _what="value differs from the XMILE semantics")
                break
            if v.status == "unknown":
                status, info = "unknown", v.detail
                break
        if status == "holds" and not any_val:
            # every symbolic path raised.  A loud refusal is allowed - but only if the REAL evaluation refuses too: the
            # exception may be the engine's (a proxy reaching a C function).  The equation is therefore evaluated on
            # concrete assignments as well; a value there is compared with the XMILE semantics.
            status, info = "refused", "evaluation raised"
            for cenv in ENVS:
                fl = lambda l: float(cenv.get(l, {"a": 1.5, "b": 2.25, "c_var": 0.75, "Dd": 3.5}[l]))
                saved = {l: model.equations[keys[l]] for l in LEAVES}
                try:
                    for l in LEAVES:
                        model.equations[keys[l]] = (lambda v: (lambda t: v))(fl(l))
                    for k in model.memo:
                        model.memo[k] = {}
                    try:
                        iv = model.memoize(key, TEVAL)
                    except Exception:
                        continue
                    try:
                        rv = X.ev(eq, X.Ctx(fl, TEVAL, DT, START, STOP, mx))
                        fi, fr = float(iv), float(rv)
                    except Exception:
                        continue
                    if fi != fi or fr != fr or abs(fr) == float("inf"):
                        continue
                    if abs(fi - fr) > 1e-9 * (1 + abs(fr)):
                        status, info = "violated", dict({k2: v2 for k2, v2 in cenv.items()}, _what="value differs from the XMILE semantics (found on a concrete assignment: the generated code cannot be followed symbolically)")
                        break
                    status, info = "holds", "concrete-only"
                finally:
                    for l in LEAVES:
                        model.equations[keys[l]] = saved[l]
                    for k in model.memo:
                        model.memo[k] = {}
        out[tag] = (status, info)
    return out



# ------------------------------------------------------------------ modular documents: an unqualified name means the variable of THAT model

MOD_MODELS = [None, "Region", "Export"]
MOD_EQS = [("x0", "a * b + a", lambda a, b: a * b + a),
           ("x1", "a - b * 2", lambda a, b: a - b * 2),
           ("x2", "(a + b) * (a - b)", lambda a, b: (a + b) * (a - b))]
MOD_PROBE = {(None, "a"): 11.5, (None, "b"): 13.25, ("Region", "a"): 17.5, ("Region", "b"): 19.75, ("Export", "a"): 23.5, ("Export", "b"): 29.125}


def modules_doc(same_text=True):
    """root model and two sub-models; every model owns a, b and x0..x2; the equations of x_i are spelled with exactly the
    same text in the three models (same_text) or with a different spacing per model"""
    def body(mi):
        vs = [X.aux("a", repr(MOD_PROBE[(MOD_MODELS[mi], "a")])), X.aux("b", repr(MOD_PROBE[(MOD_MODELS[mi], "b")]))]
        for nm, tx, _ in MOD_EQS:
            vs.append(X.aux(nm, tx if same_text else tx.replace(" ", " " * (mi + 1))))
        return "".join(vs)
    text = X.HEADER % ("mods", "0", "4", "<dt>1</dt>") + body(0)
    text += "".join("\t\t\t<module name=\"%s\"/>\n" % m for m in MOD_MODELS[1:]) + "\t\t</variables>\n\t</model>\n"
    for mi in (1, 2):
        text += "\t<model name=\"%s\">\n\t\t<variables>\n%s\t\t</variables>\n\t</model>\n" % (MOD_MODELS[mi], body(mi))
    return text + "</xmile>\n"


def eval_modules(scratch, timeout_s, mode="sym", env=None, same_text=True):
    """-> list of (model, variable, status, info)"""
    env = env or {}
    mod = X.compile_doc(modules_doc(same_text), scratch)
    model = mod.simulation_model()
    keys = X.find_keys(model, {"%s|%s" % (m or "", l): v for (m, l), v in MOD_PROBE.items()}, TEVAL)
    if len(keys) != len(MOD_PROBE):
        raise KeyError("leaf variables of the modular document not found: %s among %s" % (sorted(keys), list(model.equations)[:12]))
    sym = lambda m, l: "%s_%s" % (l, (m or "root").lower())
    leaf = (lambda m, l: S.v(sym(m, l))) if mode == "sym" else (lambda m, l: float(env.get(sym(m, l), MOD_PROBE[(m, l)])))
    for (m, l) in MOD_PROBE:
        model.equations[keys["%s|%s" % (m or "", l)]] = (lambda v: (lambda t: v))(leaf(m, l))
    out = []
    for m in MOD_MODELS:
        # the key of x_i of model m: the key of its leaf a with the last component replaced (no copy of the sanitiser)
        ka = keys["%s|a" % (m or "")]
        for nm, tx, f in MOD_EQS:
            key = ka[:-1] + nm
            if key not in model.equations:
                out.append((m, nm, "violated", {"_what": "variable %s is missing from the transpiled model" % key}))
                continue
            want = f(leaf(m, "a"), leaf(m, "b"))

            def run():
                for k in model.memo:
                    model.memo[k] = {}
                try:
                    return ("val", model.memoize(key, TEVAL))
                except Exception as e:
                    return ("exc", e)
            if mode != "sym":
                r = run()
                if r[0] == "exc":
                    out.append((m, nm, "refused", "evaluation raised %s" % type(r[1]).__name__))
                elif abs(float(r[1]) - float(want)) > 1e-9 * (1 + abs(float(want))):
                    out.append((m, nm, "violated", {"_what": "%s = %r, the document means %r" % (key, float(r[1]), float(want))}))
                else:
                    out.append((m, nm, "holds", None))
                continue
            try:
                paths = S.explore(run, max_paths=8)
            except (S.PathCapExceeded, S.SolverUnknown, S.SymbolicEscape) as e:
                out.append((m, nm, "unknown", "explore: %r" % (e,)))
                continue
            st, info = "holds", None
            for p in paths:
                if p.exc is not None:
                    st, info = "unknown", "harness: %r" % (p.exc,)
                    break
                if p.out[0] == "exc":
                    st, info = "refused", "evaluation raised %s" % type(p.out[1]).__name__
                    break
                ti, tr = S.term_of(p.out[1]), S.term_of(want)
                v = solve.prove_equal(ti, tr, p.pc, timeout_s=timeout_s)
                if v.status == "violated":
                    st, info = "violated", dict(solve.complete_model(v.model, ti, tr, *p.pc), _what="%s does not refer to the variables of its own model" % key)
                    break
                if v.status == "unknown":
                    st, info = "unknown", v.detail
                    break
            out.append((m, nm, st, info))
    return out


def replay_modules(case):
    scratch = tempfile.mkdtemp(prefix="c03-")
    try:
        for env in (case.get("env", {}), {}):
            for m, nm, st, info in eval_modules(scratch, 0, "float", env, case.get("same_text", True)):
                if st == "violated":
                    return True, "modular document, model %s, variable %s: %s" % (m or "(root)", nm, info.get("_what"))
        return False, "modular document: every variable refers to the variables of its own model"
    finally:
        shutil.rmtree(scratch, ignore_errors=True)

# ------------------------------------------------------------------ replay

def _tup(x):
    if isinstance(x, list):
        return tuple(_tup(y) for y in x)
    return x


ENVS = [{}, {"a": 3.5, "b": 1.25, "c_var": 2.0, "Dd": 0.5}, {"a": -1.5, "b": 2.5, "c_var": -0.5, "Dd": 4.0},
        {"a": 2.0, "b": 2.0, "c_var": 2.0, "Dd": 1.0}, {"a": 0.25, "b": 3.0, "c_var": 1.0, "Dd": -2.0}]


def replay(case):
    if case.get("kind") == "modules":
        return replay_modules(case)
    scratch = tempfile.mkdtemp(prefix="c03-")
    try:
        if case.get("kind") == "unsupported":
            r = eval_pack([("u", A, case["text"])], scratch, 0, "float", {}, prefilter=False)
            st = r["u"][0]
            if st == "value":
                return True, "unsupported equation %r produced the value %r instead of failing" % (case["text"], r["u"][1][0])
            return False, "unsupported equation %r: %s" % (case["text"], st)
        eq = _tup(case["eq"])
        text = case["text"]
        for env in [case.get("env", {})] + ENVS:
            r = eval_pack([("e", eq, text)], scratch, 0, "float", env)
            st, info = r["e"]
            if st == "value":
                iv, rv = info
                try:
                    fi, fr = float(iv), float(rv)
                except Exception:
                    return True, "equation %r: non-numeric %r" % (text, iv)
                if isinstance(iv, complex) or isinstance(rv, complex) or fi != fi or fr != fr or abs(fr) == float("inf"):
                    continue
                if abs(fi - fr) > 1e-9 * (1 + abs(fr)):
                    return True, "equation %r with %s: transpiled model gives %r, XMILE semantics %r" % (text, env or "defaults", fi, fr)
            elif st == "violated":
                return True, "equation %r: %s" % (text, info)
        return False, "equation %r agrees with the XMILE semantics on %d assignments" % (text, len(ENVS) + 1)
    finally:
        shutil.rmtree(scratch, ignore_errors=True)


def signature(eq):
    """outermost construct + the construct of the first compound operand"""
    def head(t):
        if t[0] == "bin":
            return t[1]
        if t[0] == "call":
            return t[1]
        return t[0]

    def first_compound(t):
        for x in t[1:]:
            if isinstance(x, tuple) and x and x[0] not in ("id", "num", "time", "dt", "starttime", "stoptime", "pi") and isinstance(x[0], str) and x[0] in (
                    "bin", "neg", "paren", "if", "call", "cmp", "and", "or", "not"):
                return x
        return None
    # find the smallest failing-looking sub-structure: a call with a compound argument wins
    def find_call(t):
        if not isinstance(t, tuple):
            return None
        if t[0] == "call":
            for i, x in enumerate(t[2:]):
                if isinstance(x, tuple) and x[0] in ("bin", "neg", "if"):
                    return "%s(arg%d:%s)" % (t[1], i, head(x))
        for x in t[1:]:
            r = find_call(x) if isinstance(x, tuple) else None
            if r:
                return r
        return None
    c = find_call(eq)
    if c:
        return "builtin:" + c
    fc = first_compound(eq)
    return "expr:%s(%s)" % (head(eq), head(fc) if fc else "")


# ------------------------------------------------------------------ canaries

def canary_minus_flattened(scratch):
    """the '-' operator re-emitted with parentheses around its right operand subtree lost: a-(b-c) as a-b-c is what
    the real generator would do if the explicit '()' node were dropped"""
    import sys
    import BPTK_Py.sdcompiler.compile  # noqa
    gen = sys.modules["BPTK_Py.sdcompiler.generator.py.py"]
    orig = gen.operators["()"]
    gen.operators["()"] = lambda body: "{}".format(gen.parseExpression(body))
    try:
        eq = bin_("-", A, ("paren", bin_("-", B, C)))
        r = eval_pack([("k", eq, X.render(eq, X.Style()))], scratch, 10)
    finally:
        gen.operators["()"] = orig
    return r["k"][0] == "violated"


def canary_min_as_max(scratch):
    import sys
    import BPTK_Py.sdcompiler.compile  # noqa
    gen = sys.modules["BPTK_Py.sdcompiler.generator.py.py"]
    orig = gen.builtins["min"]
    gen.builtins["min"] = gen.builtins["max"]
    try:
        eq = ("call", "MIN", A, B)
        r = eval_pack([("k", eq, X.render(eq, X.Style()))], scratch, 10)
    finally:
        gen.builtins["min"] = orig
    return r["k"][0] == "violated"


# ------------------------------------------------------------------ main

_G = {}


def _task(chunk):
    scratch = tempfile.mkdtemp(prefix="c03-", dir=_G["scratch"])
    try:
        return eval_pack(chunk, scratch, _G["timeout"])
    finally:
        shutil.rmtree(scratch, ignore_errors=True)


def run(tier):
    from BPTK_Py.sdcompiler.compile import compile_xmile
    import BPTK_Py.sdcompiler.compile  # noqa
    import sys as _sys
    gr = _sys.modules["BPTK_Py.sdcompiler.parsers.smile.grammar"]
    xp = _sys.modules["BPTK_Py.sdcompiler.parsers.xmile.xmile"]
    import sys
    import BPTK_Py.sdcompiler.compile  # noqa
    gen = sys.modules["BPTK_Py.sdcompiler.generator.py.py"]
    sn = _sys.modules["BPTK_Py.sdcompiler.plugins.sanitizeNames"]
    ma = _sys.modules["BPTK_Py.sdcompiler.plugins.makeAbsolute"]
    rep = harness.Report(PID, tier, "translation_validation", MODULE)
    rep.encoded(compile_xmile, xp.parse_xmile, gr.SMILEVisitor, gen.parseExpression, gen.if_, gen.min_, gen.max_, gen.safediv_,
                gen.step_, sn.sanitizeName, ma.makeExpressionAbsolute)
    _G["timeout"] = 20 if tier == "quick" else 60
    _G["scratch"] = os.environ.get("VCHECK_SCRATCH", tempfile.gettempdir())
    stubs = harness.Stubs()
    eqs = equations(tier, harness.seed())
    items = [("e%d" % i, eq, X.render(eq, X.Style())) for i, eq in enumerate(eqs)]
    # spelling variants of a spread subset
    var_items, var_groups = [], {}
    step = 7 if tier == "quick" else 3
    for i, eq in list(enumerate(eqs))[::step]:
        for j, tx in enumerate(variants(eq)):
            tag = "v%d_%d" % (i, j)
            var_items.append((tag, eq, tx))
            var_groups.setdefault(i, []).append(tag)
    allitems = items + var_items
    size = 60
    chunks = [allitems[i:i + size] for i in range(0, len(allitems), size)]
    counts = {"holds": 0, "violated": 0, "refused": 0, "unknown": 0}
    res = {}
    results = harness.pmap(_task, chunks)
    for ch, (r, err) in zip(chunks, results):
        if err:
            for tag, _, _ in ch:
                res[tag] = ("unknown", err[:200])
        else:
            res.update(r)
    texts = {tag: (eq, tx) for tag, eq, tx in allitems}
    samples, bad, refused, canon_refused = [], [], [], []
    for tag, (st, info) in sorted(res.items()):
        counts[st] = counts.get(st, 0) + 1
        eq, tx = texts[tag]
        if st == "violated":
            bad.append((tag, eq, tx, info))
        elif st == "unknown":
            rep.inconcl("%s %r: %s" % (tag, tx, info))
        elif st == "refused":
            refused.append(tx)
            if tag.startswith("e"):
                canon_refused.append(tx)
        if len(samples) < 12 and (len(samples) < 5 or st == "violated"):
            samples.append({"equation": tx, "verdict": st})
    # variants: a spelling that is refused while the canonical one is accepted is a naming/spelling dependence
    spell = []
    for i, tags in var_groups.items():
        base = res.get("e%d" % i, ("unknown", None))[0]
        for tg in tags:
            st = res.get(tg, ("unknown", None))[0]
            if base == "holds" and st == "refused":
                spell.append((tg, texts[tg][1]))
    # unsupported equations, one document each
    scratch = tempfile.mkdtemp(prefix="c03-u-", dir=_G["scratch"])
    uns = 0
    try:
        for tx in UNSUPPORTED:
            r = eval_pack([("u", A, tx)], scratch, 10, "float", {}, prefilter=False)
            uns += 1
            if r["u"][0] == "value":
                rep.candidate("unsupported:" + tx, {"kind": "unsupported", "text": tx}, "unsupported equation %r produced the value %r" % (tx, r["u"][1][0]))
        # modular documents: the same equation text in the root model and two sub-models, and a control with other spacing
        mods = 0
        for same in (True, False):
            try:
                mres = eval_modules(scratch, _G.get("timeout", 20), "sym", None, same)
            except S.SymbolicEscape as e:
                rep.inconcl("modular document: %r" % (e,))
                continue
            except Exception as e:
                rep.notes.append("modular document (same_text=%s) refused by the pipeline: %s" % (same, type(e).__name__))
                continue
            for m, nm, st, info in mres:
                mods += 1
                counts[st] = counts.get(st, 0) + 1
                if st == "violated":
                    env = {k: float(v) for k, v in info.items() if isinstance(v, (Fraction, int, float)) and not isinstance(v, bool)}
                    rep.candidate("modules:%s" % ("same-text" if same else "other-spacing"), {"kind": "modules", "same_text": same, "env": env},
                                  "modular document, model %s, variable %s: %s" % (m or "(root)", nm, info.get("_what")))
                elif st == "unknown":
                    rep.inconcl("modular document %s.%s: %s" % (m, nm, info))
        rep.canary("explicit-parentheses-dropped", canary_minus_flattened(scratch))
        rep.canary("MIN-transpiled-as-MAX", canary_min_as_max(scratch))
    finally:
        shutil.rmtree(scratch, ignore_errors=True)
    seen = set()
    for tag, eq, tx, info in bad:
        sig = signature(eq)
        if sig in seen:
            continue
        seen.add(sig)
        env = {k: float(v) for k, v in info.items() if isinstance(v, (Fraction, int, float)) and not isinstance(v, bool)}
        rep.candidate(sig, {"eq": eq, "text": tx, "env": env}, "equation %r: %s" % (tx, info.get("_what")))
    rep.notes.append("equations of the claimed vocabulary that the transpiler refuses loudly (allowed by the property, listed for information): %d, e.g. %s" % (len(refused), refused[:8]))
    rep.notes.append("spellings refused although the canonical spelling is accepted: %d, e.g. %s" % (len(spell), [s for _, s in spell[:6]]))
    rep.assume("leaf variable values are reals; ^ with non-small exponent, MOD, EXP, LN, LOG10, INT, ROUND, SIN, COS, TAN are uninterpreted functions on both sides; SQRT(x) = x^0.5",
               "reference: XMILE precedence ^ (right-assoc) > unary minus > * / MOD > + - > comparisons > NOT > AND > OR, left-to-right; STEP(h,t0) = h from t0 on; SAFEDIV(a,b,z) = z when b = 0",
               "names generated code resolves in its module (max, min, sum, math, np, random) are vsym stubs; evaluation at t=2 of a 0..4 dt=1 model",
               "a loud refusal (parse/compile/evaluation exception) is accepted; only a wrong VALUE is a violation")
    rep.coverage.update({"programs": len(allitems) + uns, "disagreements_checked": len(bad), "samples": samples, "verdicts": counts,
                         "equations": len(items), "spelling_variants": len(var_items), "unsupported_forms": uns, "module_variables": mods, "exhaustive": True,
                         "canonical_spellings_refused": canon_refused[:60],
                         "bounds": "equation ASTs depth <= 3 over 6 binary operators, unary minus, parentheses, IF/AND/OR/NOT, 6 comparisons, 15 built-ins; 10 spelling styles; one modular document shape (root + 2 sub-models, 3 equations with identical / differently spaced text per model)",
                         "outside": "arrays, module connects / cross-module references, stochastic/financial built-ins, PREVIOUS, DELAY*/SMTH* (C04), hand-written documents"})
    return rep.finish()
