"""C11 - agent events reach exactly the addressed agent, once, at the right step.

Part 1 (CrossHair on the real classes): routing / exactly-once / order / step, histories of creation,
deletion, reconfiguration + send scripts with symbolic ints, dt = 1.
Part 2 (QF_FPBV, cvc5): the float countdown of Scheduler.handle_delayed_event against ceil(delay/dt)
for every binary64 delay in (0, 8*dt], dt on a lattice (see checks/c11_fp.py)."""
import os

from vsym import harness, chx

PID = "C11"
MODULE = "checks.c11"
HFILE = os.path.join(harness.VERIF, "checks", "ch", "c11_h.py")
HFILE_MUT = os.path.join(harness.VERIF, "checks", "ch", "c11_mut.py")


def _sig(msg):
    if msg is None:
        return "none"
    if msg.startswith("crash"):
        return "route:crash"
    if "not addressed to it" in msg:
        return "route:wrong-agent"
    if "history raised" in msg:
        return "history:raised"
    if "twice" in msg:
        return "route:duplicate"
    if "opposite order" in msg or "time order" in msg:
        return "order:same-step"
    if "never handled" in msg:
        return "route:lost-or-wrong-step"
    if "non-existing agent" in msg:
        return "route:wrong-agent"
    if "never reused" in msg:
        return "ids:reused"
    return "other"


def replay(case):
    if case.get("kind") == "fp":
        from checks import c11_fp
        return c11_fp.replay(case)
    from checks.ch import c11_h as H
    r = H.run_script([tuple(x) for x in case["hist"]], [tuple(x) for x in case["sends"]])
    return (r is not None), "history %s sends %s: %s" % (case["hist"], case["sends"], r or "all events handled as addressed")


def run(tier):
    from BPTK_Py import Model, SimultaneousScheduler, Scheduler, Agent
    rep = harness.Report(PID, tier, "model_checking", MODULE)
    rep.encoded(SimultaneousScheduler.run_step, Scheduler.handle_delayed_event, Agent.receive_event, Agent.handle_events,
                Model.enqueue_event, Model.delete_agents, Model.configure_agents, Model.create_agent, Model.agent)
    jobs, meta = [], []

    def add(h, e, first=-1, second=-1, estep=-1, wmax=0, smax=2, dmax=2, initial=2, req=True, tmo=None):
        jobs.append(("_routing", tmo or base_tmo, {"C11_HLEN": str(h), "C11_ELEN": str(e), "C11_FIRST": str(first),
                                                   "C11_SECOND": str(second), "C11_ESTEP": str(estep), "C11_WMAX": str(wmax),
                                                   "C11_SMAX": str(smax), "C11_DMAX": str(dmax), "C11_INITIAL": str(initial)}, req))
        meta.append(("routing", h, e, first))
    # the claim (both tiers): these slices must all be confirmed
    base_tmo = 600 if tier == "quick" else 750
    add(0, 1), add(1, 1)
    for st in range(2):
        add(0, 2, estep=st, smax=1, dmax=1)
        for f in range(3):
            add(1, 2, f, estep=st, smax=1, dmax=1, initial=1)
    # population changes BETWEEN steps (before steps 0..2), interleaved with the sends
    for f in range(3):
        add(1, 1, f, wmax=2)
    for f in (0, 1):
        for g in (0, 1):
            for st in range(3):
                add(2, 1, f, g, estep=st, wmax=2, dmax=1)
    if tier == "thorough":
        # deeper slices under the tier's wall-time budget; what CrossHair does not finish is reported as not explored
        deep = dict(req=False, tmo=1200)
        add(2, 1, **deep), add(0, 2, **deep), add(0, 3, estep=0, **deep), add(0, 3, estep=1, **deep), add(0, 3, estep=2, **deep)
        for f in range(3):
            add(1, 2, f, **deep)
            add(2, 1, f, **deep)
            for g in range(3):
                add(3, 1, f, g, initial=1, **deep)
                for st in range(3):
                    add(2, 1, f, g, estep=st, wmax=2, **deep)
                    add(2, 2, f, g, st, initial=1, **deep)
    jobs.append(("_routing_twin", 60, {"C11_HLEN": "1", "C11_ELEN": "1", "C11_FIRST": "-1"}, True))
    meta.append(("twin", 1, 1, -1))
    jobs.append(("_routing", 120, {"C11_HLEN": "2", "C11_ELEN": "1", "C11_FIRST": "-1"}, True))
    meta.append(("canary", 2, 1, -1))
    hf = [HFILE] * (len(jobs) - 1) + [HFILE_MUT]
    required = [j[3] for j in jobs]
    results = chx.run_jobs([(p, f, t, e, r) for p, (f, t, e, r) in zip(hf, jobs)])
    samples, confirmed = [], 0
    from checks.ch import c11_h as H
    for (kind, h, e, f), r, req in zip(meta, results, required):
        label = "%s history_len=%d events=%d first_op=%d" % (kind, h, e, f)
        if kind == "twin":
            if r.verdict != chx.VERDICT_CEX:
                rep.inconcl("reachability twin gave no witness: %s" % r.message[:200])
            continue
        if kind == "canary":
            rep.canary("scheduler-indexes-agents-by-receiver-id", r.verdict == chx.VERDICT_CEX)
            continue
        if r.verdict == chx.VERDICT_CONFIRMED:
            confirmed += 1
        elif r.verdict == chx.VERDICT_CEX and r.args:
            names = ["h0", "a0", "h1", "a1", "h2", "a2", "s0", "r0", "d0", "s1", "r1", "d1", "s2", "r2", "d2", "w0", "w1", "w2"]
            vals = [r.args.get(nm, r.args.get("_pos%d" % i)) for i, nm in enumerate(names)]
            hist = [(vals[0], vals[1], vals[15] or 0), (vals[2], vals[3], vals[16] or 0), (vals[4], vals[5], vals[17] or 0)][:h]
            sends = [(vals[6], vals[7], vals[8]), (vals[9], vals[10], vals[11]), (vals[12], vals[13], vals[14])][:e]
            why = H.run_script([tuple(x) for x in hist], [tuple(x) for x in sends])
            rep.candidate(_sig(why), {"hist": [list(x) for x in hist], "sends": [list(x) for x in sends]}, "%s: %s" % (label, why))
        else:
            chx.unfinished(rep, label, r, req)
        if len(samples) < 8:
            samples.append({"condition": label, "verdict": r.verdict, "seconds": round(r.seconds, 1), "message": r.message[:160]})
    # part 2: floating point countdown
    from checks import c11_fp
    fp = c11_fp.run_part(rep, tier)
    rep.assume("history ops: create, delete(id 0..3), configure_agents(2), each before step 0 or (slices with wmax=2) before step 0, 1 or 2; send script: step 0..2, receiver 0..4, plain or delayed by 0..2 steps; dt = 1; 5 steps run",
               "events are enqueued between steps (as agents do in act()); liveness of receivers is fixed by the history",
               "CrossHair 0.0.110; only 'Confirmed over all paths' accepted",
               "delay arithmetic: binary64, round-to-nearest-even, delay in (0, 8*dt], dt on the lattice; decided by cvc5 (QF_FPBV) on the AST-derived countdown")
    rep.coverage.update({"states": max(1, chx.STATS["conditions"]) + fp.get("queries", 0), "transitions": max(1, confirmed + fp.get("unsat", 0)),
                         "traces_validated_against_impl": len(rep.cands), "samples": samples + fp.get("samples", []),
                         "crosshair": dict(chx.STATS), "fp": fp, "exhaustive": True,
                         "explanation": "states = CrossHair conditions + FP solver queries; transitions = conditions confirmed / queries unsat",
                         "outside": "random_events, broadcast, instantaneous events, more than 4 agents, deletion while events are in flight"})
    return rep.finish()
