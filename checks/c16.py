"""C16 - server instances are isolated from one another.

Engine: vsym through the real Flask handlers.  k instances receive request sequences (begin-session,
run-step with/without settings, session-results, end-session, keep-alive, stop-instance); every settings
value is a symbol owned by (instance, request).  All interleavings at request granularity run on ONE
server; each instance's responses must equal - as terms, for all setting values - the responses of a solo
replay of its own requests on a fresh server.  A response mentioning another instance's symbol is a leak
whatever its value."""
import itertools
import json
import os
import shutil
import tempfile
from fractions import Fraction

from vsym import terms as T, sym as S, solve, harness
from checks import scen

PID = "C16"
MODULE = "checks.c16"
REQS = ["begin", "begin_set", "step_set", "step", "results", "end", "keepalive", "stop", "expire"]


_FAMILY = {"kind": "dsl", "root": None, "tag": None}      # which kind of bptk the server's factory builds


def file_factory():
    """bptk() as a deployment builds it: scenario managers read from a scenarios/ folder (JSON file, XMILE source)"""
    import sys
    import BPTK_Py
    from checks import xmile as X
    root, tag = _FAMILY["root"], _FAMILY["tag"]
    cfg = sys.modules["BPTK_Py.config.config"]
    saved, old_cwd = cfg.configuration.get("scenario_storage"), os.getcwd()
    os.chdir(root)
    if root not in sys.path:
        sys.path.insert(0, root)
    try:
        cfg.configuration["scenario_storage"] = os.path.join(root, "scenarios")
        b = BPTK_Py.bptk()
        b.scenario_manager_factory.scenario_managers = {}
        b.scenario_manager_factory.get_scenario_managers(path=os.path.join(root, "scenarios"))
        mod = sys.modules.get("simmodels." + tag)
        if mod is not None and _FAMILY.get("sym"):
            X.bind_stubs(mod)
        return b
    finally:
        cfg.configuration["scenario_storage"] = saved
        os.chdir(old_cwd)


def factory():
    if _FAMILY["kind"] == "files":
        return file_factory()
    import BPTK_Py
    m = scen.base_model(0.0, 4.0, 1.0, name="c16")
    b = BPTK_Py.bptk()
    b.register_scenario_manager({"sm": {"model": m}})
    b.register_scenarios(scenario_manager="sm", scenarios={"A": {}})
    return b


def scripts(tier):
    """per-instance request scripts (begin first so that the others have something to act on)"""
    tails = [["step_set", "step"], ["step", "step_set"], ["step_set", "results"], ["step_set", "end"], ["step", "stop"],
             ["keepalive", "step_set"], ["step_set", "step_set"], ["end", "step"], ["results", "step"]]
    if tier == "thorough":
        tails += [list(t) for t in itertools.product(REQS[1:], repeat=3)][::3]
    out = [["begin"] + t for t in tails]
    # sessions begun WITH settings (they are written into the scenario objects of that instance)
    out += [["begin_set", "step", "results"], ["begin_set", "step_set", "step"], ["begin_set", "end", "begin"],
            ["begin_set", "stop"], ["begin_set", "step_set", "stop"],
            # the instance's timeout elapses (its last-access time is moved back beyond the timeout); the sweep that
            # removes it is triggered by whichever request comes next - its own or the other instance's
            ["begin", "step_set", "expire", "step"], ["begin_set", "expire", "keepalive"], ["begin", "expire"]]
    # starting the instance is a request of the script: an instance may be started after another one was used and stopped
    out = [["start"] + x for x in out]
    # an instance with a LONGER timeout (5 hours) that stays idle for 3 hours: it must survive whatever the others do
    out += [["start_long", "begin", "step_set", "idle3h", "step", "results"], ["start_long", "begin_set", "idle3h", "keepalive", "step"]]
    return out


def interleavings(a, b, limit):
    """merges of two sequences (as lists of (instance, position)), at most `limit`"""
    out = []

    def go(i, j, acc):
        if len(out) >= limit:
            return
        if i == len(a) and j == len(b):
            out.append(list(acc))
            return
        if i < len(a):
            go(i + 1, j, acc + [(0, i)])
        if j < len(b):
            go(i, j + 1, acc + [(1, j)])
    go(0, 0, [])
    return out


class Server(object):
    def __init__(self, mode, env):
        from BPTK_Py.server import BptkServer
        self.mgr, self.eqs = "sm", scen.EQS
        self.root = None
        if _FAMILY["kind"] == "files":
            # every server gets its own project folder (own files, own transpiled module)
            from checks import c07_files
            self.root = tempfile.mkdtemp(prefix="c16-", dir=os.environ.get("VCHECK_SCRATCH"))
            _FAMILY["root"], _FAMILY["sym"] = self.root, (mode == "sym")
            _FAMILY["tag"], _ = c07_files.build("one-file:scenario-constants", self.root, mode, env)
            self.mgr, self.eqs = "smf", c07_files.EQS
        adapter = None
        if _FAMILY["kind"] == "adapter":
            # a server with an external state store (FileAdapter, own folder per server): instances are written out
            # after their requests and looked up there when a request names an id that is not in memory
            from BPTK_Py.externalstateadapter import FileAdapter
            self.root = tempfile.mkdtemp(prefix="c16a-", dir=os.environ.get("VCHECK_SCRATCH"))
            adapter = FileAdapter(False, self.root)
        self.app = BptkServer(__name__, factory, adapter) if adapter is not None else BptkServer(__name__, factory)
        self.c = self.app.test_client()
        self.mode, self.env = mode, env or {}
        self.ids = {}

    def start(self, inst, hours=1):
        r = self.c.post("/start-instance", data=json.dumps({"timeout": {"hours": hours}}), content_type="application/json")
        self.ids[inst] = json.loads(r.data)["instance_uuid"]

    def value(self, name):
        if self.mode == "sym":
            return scen.sym_const(name)
        return float(self.env.get(name, 2.0 + (sum(map(ord, name)) % 7)))

    def do(self, inst, pos, req):
        if req in ("start", "start_long"):
            self.start(inst, 1 if req == "start" else 5)
            return (200, "started")
        if req == "idle3h":
            import datetime
            d = self.app._instance_manager._instances.get(self.ids[inst])
            if d is not None and d.get("time") is not None:
                d["time"] = d["time"] - datetime.timedelta(hours=3)          # less than this instance's own timeout of 5 hours
            return (200, "idle for three hours")
        uid = self.ids[inst]
        post = lambda url, body=None: self.c.post(url, data=json.dumps(body), content_type="application/json") if body is not None else self.c.post(url)
        if req == "begin":
            r = post("/%s/begin-session" % uid, {"scenario_managers": [self.mgr], "scenarios": ["A"], "equations": self.eqs})
        elif req == "begin_set":
            v = self.value("i%d_r%d" % (inst, pos))
            r = post("/%s/begin-session" % uid, {"scenario_managers": [self.mgr], "scenarios": ["A"], "equations": self.eqs,
                                                  "settings": {self.mgr: {"A": {"constants": {"c": v}}}}})
        elif req == "step_set":
            v = self.value("i%d_r%d" % (inst, pos))
            r = post("/%s/run-step" % uid, {"settings": {self.mgr: {"A": {"constants": {"k": v}}}}})
        elif req == "step":
            r = post("/%s/run-step" % uid)
        elif req == "results":
            r = self.c.get("/%s/session-results" % uid)
        elif req == "end":
            r = post("/%s/end-session" % uid)
        elif req == "keepalive":
            r = post("/%s/keep-alive" % uid)
        elif req == "stop":
            r = post("/%s/stop-instance" % uid)
        elif req == "expire":
            import datetime
            d = self.app._instance_manager._instances.get(uid)
            if d is not None and d.get("time") is not None:
                d["time"] = d["time"] - datetime.timedelta(hours=2)          # timeout is 1 hour
            return (200, "idle for two hours")
        else:
            raise ValueError(req)
        try:
            body = scen.loads(r.data)
        except Exception:
            body = r.data.decode(errors="replace")
        return (r.status_code, body)


def run_case(sa, sb, merge, mode, env=None):
    """-> (interleaved responses per instance, solo responses per instance)"""
    servers = []
    try:
        return _run_case(sa, sb, merge, mode, env, servers)
    finally:
        for x in servers:
            if x.root:
                # stop the file monitors of every bptk object of that server before its folder goes away
                try:
                    for d in list(x.app._instance_manager._instances.values()):
                        d["instance"].destroy()
                    if getattr(x.app, "_bptk", None) is not None:
                        x.app._bptk.destroy()
                except Exception:
                    pass
                shutil.rmtree(x.root, ignore_errors=True)


def _run_case(sa, sb, merge, mode, env, servers):
    seqs = [sa, sb]
    srv = Server(mode, env)
    servers.append(srv)
    inter = {0: [], 1: []}
    for inst, pos in merge:
        inter[inst].append(srv.do(inst, pos, seqs[inst][pos]))
    solo = {}
    for inst in (0, 1):
        s2 = Server(mode, env)
        servers.append(s2)
        solo[inst] = [s2.do(inst, pos, req) for pos, req in enumerate(seqs[inst])]
    # once an instance's timeout has elapsed, its own fate depends - by design (C17) - on which request triggers
    # the next sweep; only the OTHER instance's responses are compared from then on
    for inst in (0, 1):
        if "expire" in seqs[inst]:
            cut = seqs[inst].index("expire") + 1
            for lst in (inter[inst], solo[inst]):
                for i in range(cut, len(lst)):
                    lst[i] = (0, "not compared: after this instance's own timeout")
    return inter, solo


def flatten(x, prefix=""):
    """response body -> list of (path, leaf)"""
    out = []
    if isinstance(x, dict):
        for k in sorted(x, key=str):
            out += flatten(x[k], prefix + "/" + str(k))
    elif isinstance(x, (list, tuple)):
        for i, v in enumerate(x):
            out += flatten(v, prefix + "[%d]" % i)
    else:
        out.append((prefix, x))
    return out


def compare(inter, solo, pc, timeout_s, numeric=False):
    for inst in (0, 1):
        for n, ((s1, b1), (s2, b2)) in enumerate(zip(inter[inst], solo[inst])):
            if s1 != s2:
                return "instance %d request %d: status %s interleaved, %s alone" % (inst, n, s1, s2), None
            f1, f2 = flatten(b1), flatten(b2)
            if [p for p, _ in f1] != [p for p, _ in f2]:
                return "instance %d request %d: response structure differs from the solo run" % (inst, n), None
            for (p, v1), (_, v2) in zip(f1, f2):
                if S.is_sym(v1) or S.is_sym(v2):
                    t1, t2 = S.term_of(v1), S.term_of(v2)
                    v = solve.prove_equal(t1, t2, pc, timeout_s=timeout_s)
                    if v.status == "violated":
                        foreign = sorted(n_ for n_ in T.free_vars(t1) if not n_.startswith("i%d_" % inst))
                        return "instance %d request %d: %s differs from the solo run%s" % (
                            inst, n, p, " (mentions %s)" % foreign if foreign else ""), solve.complete_model(v.model, t1, t2)
                    if v.status == "unknown":
                        return "UNKNOWN " + v.detail, None
                elif isinstance(v1, float) and isinstance(v2, float):
                    if abs(v1 - v2) > 1e-9 * (1 + abs(v2)):
                        return "instance %d request %d: %s = %r, alone %r" % (inst, n, p, v1, v2), None
                elif v1 != v2:
                    return "instance %d request %d: %s = %r, alone %r" % (inst, n, p, v1, v2), None
    return None


def check_case(sa, sb, merge, timeout_s):
    def run():
        try:
            return ("ok",) + run_case(sa, sb, merge, "sym")
        except Exception as e:
            import traceback
            return ("exc", e, traceback.format_exc()[-500:])
    try:
        paths = S.explore(run, max_paths=8)
    except (S.PathCapExceeded, S.SolverUnknown, S.SymbolicEscape) as e:
        return "unknown", "explore: %r" % (e,)
    for p in paths:
        if p.exc is not None:
            return "unknown", "harness: %r" % (p.exc,)
        if p.out[0] == "exc":
            return "violated", {"_what": "raised %r" % (p.out[1],)}
        r = compare(p.out[1], p.out[2], p.pc, timeout_s)
        if r:
            if r[0].startswith("UNKNOWN"):
                return "unknown", r[0]
            info = dict(r[1] or {})
            info["_what"] = r[0]
            return "violated", info
    return "holds", None


def replay(case):
    sa, sb, merge = case["sa"], case["sb"], [tuple(x) for x in case["merge"]]
    _FAMILY["kind"] = case.get("family", "dsl")
    for env in (case.get("env", {}), {}):
        inter, solo = run_case(sa, sb, merge, "float", env)
        r = compare(inter, solo, (), 0, numeric=True)
        if r:
            return True, "scripts %s | %s interleaved as %s: %s" % (sa, sb, merge, r[0])
    return False, "scripts %s | %s: every response equals the solo run" % (sa, sb)


def canary_shared_model():
    """a factory that hands the same scenario objects to every instance"""
    global factory
    orig = factory
    shared = orig()

    def bad():
        import BPTK_Py
        b = BPTK_Py.bptk()
        b.scenario_manager_factory.scenario_managers = shared.scenario_manager_factory.scenario_managers
        return b
    factory = bad
    try:
        sa, sb = ["start", "begin", "step_set", "step"], ["start", "begin", "step", "step"]
        st, info = check_case(sa, sb, [(0, 0), (1, 0), (0, 1), (1, 1), (0, 2), (1, 2), (0, 3), (1, 3)], 10)
    finally:
        factory = orig
    return st == "violated"


_G = {}


def _task(t):
    return check_case(t[0], t[1], t[2], _G["timeout"])


def run(tier):
    import BPTK_Py.server.bptkServer as srv
    from BPTK_Py.bptk import bptk
    rep = harness.Report(PID, tier, "model_checking", MODULE)
    rep.encoded(srv.InstanceManager.create_instance, srv.InstanceManager.get_instance, srv.BptkServer._begin_session_resource,
                srv.BptkServer._run_step_resource, srv.BptkServer._session_results_resource, srv.BptkServer._end_session_resource,
                srv.BptkServer._keep_alive_resource, srv.BptkServer._stop_instance_resource, bptk.begin_session, bptk.run_step,
                bptk.session_results, bptk.end_session)
    _G["timeout"] = 20 if tier == "quick" else 60
    stubs = harness.Stubs()
    harness.install_sd_stubs(stubs)
    scen.install_json_hooks(stubs)
    sc = scripts(tier)
    tasks = []
    lim = 4 if tier == "quick" else 10
    for ia, a in enumerate(sc):
        partners = sc if len(sc) <= 20 else [sc[(ia * 7 + j * (len(sc) // 12 + 1)) % len(sc)] for j in range(12)]
        for b in partners:
            ms = interleavings(a, b, 400)
            step = max(1, len(ms) // lim)
            for m in ms[::step][:lim]:
                tasks.append((a, b, m))
    counts = {"holds": 0, "violated": 0, "unknown": 0}
    samples, bad = [], []
    try:
        results = harness.pmap(_task, tasks, chunksize=4)
        for t, (r, err) in zip(tasks, results):
            st, info = ("unknown", err) if err else r
            counts[st] += 1
            if st == "violated":
                bad.append((t, info))
            elif st == "unknown":
                rep.inconcl("%s: %s" % (t, info))
            if len(samples) < 6 and (st != "holds" or len(samples) < 3):
                samples.append({"instance0": t[0], "instance1": t[1], "interleaving": t[2], "verdict": st})
        # the same question for a factory that builds bptk() from a scenarios/ folder (JSON scenario file, XMILE source)
        fa = ["start", "begin_set", "step", "results"]
        fb = ["start", "begin", "step", "results"]
        file_cases = [(fa, fb, [(0, i) for i in range(4)] + [(1, i) for i in range(4)]),
                      (fa, fb, [(0, 0), (1, 0), (0, 1), (1, 1), (0, 2), (1, 2), (0, 3), (1, 3)]),
                      (["start", "begin_set", "stop"], fb, [(0, 0), (0, 1), (0, 2), (1, 0), (1, 1), (1, 2), (1, 3)]),
                      (fb, ["start", "begin", "step_set", "step"], [(1, 0), (1, 1), (1, 2), (0, 0), (0, 1), (0, 2), (1, 3), (0, 3)])]
        _FAMILY["kind"] = "files"
        try:
            for t in file_cases:
                st, info = check_case(t[0], t[1], t[2], _G["timeout"])
                counts[st] += 1
                tasks.append(t)
                if st == "violated":
                    info = dict(info)
                    info["_family"] = "files"
                    bad.append((t, info))
                elif st == "unknown":
                    rep.inconcl("file-backed factory %s: %s" % (t, info))
        finally:
            _FAMILY["kind"] = "dsl"
        # ... and for a server with an external state adapter: one instance ends its session (memory ahead of its file),
        # the other is stopped / times out and is then addressed again (a lookup in the store)
        ab = ["start", "begin", "step_set", "end", "results", "step"]
        adapter_cases = [(["start", "begin", "stop", "step"], ab, [(1, 0), (1, 1), (1, 2), (1, 3), (0, 0), (0, 1), (0, 2), (0, 3), (1, 4), (1, 5)]),
                         (["start", "begin", "expire", "step"], ab, [(1, 0), (1, 1), (1, 2), (1, 3), (0, 0), (0, 1), (0, 2), (0, 3), (1, 4), (1, 5)]),
                         (["start", "begin_set", "step", "stop", "results"], ["start", "begin", "step_set", "step", "results"],
                          [(0, 0), (1, 0), (0, 1), (1, 1), (0, 2), (1, 2), (0, 3), (1, 3), (0, 4), (1, 4)])]
        _FAMILY["kind"] = "adapter"
        try:
            for t in adapter_cases:
                st, info = check_case(t[0], t[1], t[2], _G["timeout"])
                counts[st] += 1
                tasks.append(t)
                if st == "violated":
                    info = dict(info)
                    info["_family"] = "adapter"
                    bad.append((t, info))
                elif st == "unknown":
                    rep.inconcl("server with external state adapter %s: %s" % (t, info))
        finally:
            _FAMILY["kind"] = "dsl"
        rep.canary("factory-shares-scenarios-between-instances", canary_shared_model())
    finally:
        stubs.restore()
    seen = set()
    for (a, b, m), info in bad:
        what = info.get("_what", "")
        sig = "interference:" + ("status" if "status" in what else ("structure" if "structure" in what else "value")) + ({"files": ":file-backed", "adapter": ":state-adapter"}.get(info.get("_family"), ""))
        if sig in seen:
            continue
        seen.add(sig)
        env = {k: float(v) for k, v in info.items() if isinstance(v, (Fraction, int, float)) and not isinstance(v, bool)}
        rep.candidate(sig, {"sa": a, "sb": b, "merge": [list(x) for x in m], "env": env, "family": info.get("_family", "dsl")}, "scripts %s | %s interleaved %s: %s" % (a, b, m, what))
    rep.assume("two instances; the bptk factory builds a fresh model per instance (as in the repository's server tests); 4 cases with a factory that builds bptk() from a scenarios/ folder (JSON file with an XMILE source); 3 cases on a server with an external state adapter (FileAdapter, uncompressed, own folder per server): end-session in one instance, stop / time-out and a late request in the other",
               "interleavings at request granularity (a spread sample of up to %d merges per script pair, always including 'all of one instance, then the other'; scripts of 3-5 requests starting with start-instance)" % lim,
               "instance ids differ between runs and are not compared; timestamps are not part of the compared responses",
               "timing out: the instance's last-access time is moved back by two hours (timeout one hour); the sweep runs in the next request to any instance")
    rep.coverage.update({"states": len(tasks), "transitions": max(1, counts["holds"]), "traces_validated_against_impl": len(seen),
                         "samples": samples, "verdicts": counts, "exhaustive": False,
                         "explanation": "states = (script pair, interleaving) cases; each compares every response with the solo replay for all setting values",
                         "outside": "true concurrency between instances, process-wide plotting configuration, more than 2 instances"})
    return rep.finish()
