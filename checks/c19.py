"""C19 - externalised instance state is restored losslessly.

Part 1 (CrossHair): the real compress_settings / decompress_settings / compress_results / decompress_results
on symbolic logs (step keys from a menu, steps with/without settings, constants present/absent, values
symbolic): decompress(compress(log)) must equal the log as the uncompressed adapter path delivers it.
Part 2 (vsym): whole path through the REAL server handlers, InstanceManager._get_instance_state /
reconstruct_instance, ExternalStateAdapter.save/load, FileAdapter (temp directory), bptk._set_state:
session histories over a run-spec lattice with symbolic settings values; after save+load the session state
(clock, logs, scenario/equation lists) and the served session results must equal those before the save."""
import copy
import json
import os
import shutil
import tempfile
from concurrent.futures import ThreadPoolExecutor
from fractions import Fraction

from vsym import terms as T, sym as S, solve, harness, chx
from checks import scen

PID = "C19"
MODULE = "checks.c19"
HFILE = os.path.join(harness.VERIF, "checks", "ch", "c19_h.py")


# ------------------------------------------------------------------ part 1

def classify(fn, steps, why):
    from checks.ch import c19_h as H
    if why and why.startswith("raised"):
        return "compress:%s:raised" % fn
    keys = [H.KEYS[s[0]] for s in steps]
    canonical = keys == [float(i + 1) for i in range(len(keys))]
    if not canonical:
        return "compress:%s:step-keys" % fn
    if fn == "settings" and not all(s[1] and s[2] and s[4] for s in steps):
        return "compress:settings:ragged-constants"
    return "compress:%s:other" % fn


def replay_part1(case):
    from checks.ch import c19_h as H
    steps = [tuple(s) for s in case["steps"]]
    r = H.roundtrip_settings(steps) if case["fn"] == "settings" else H.roundtrip_results(steps)
    return (r is not None), "%s log built from %s: %s" % (case["fn"], steps, r or "round trip exact")


# ------------------------------------------------------------------ part 2

def specs(tier):
    out = [(0.0, 1.0), (1.0, 0.5), (2.5, 0.1), (9.0, 0.5), (8.0, 1.0),     # the last two cross a digit boundary (9.5 -> 10.0)
           (0.5, 1.0), (2.25, 0.5)]                                        # start time with more decimals than dt
    if tier == "thorough":
        out += [(0.0, 0.1), (1.0, 1.0), (0.0, 0.25), (2.5, 0.5)]
    return out


STEP_KINDS = ["set", "empty", "nobody"]       # run-step with settings / with empty settings / without a body


def histories(tier):
    import itertools
    out = []
    for n in (1, 2, 3):
        for h in itertools.product(STEP_KINDS, repeat=n):
            out.append(list(h))
    if tier == "thorough":
        out += [list(h) for h in itertools.product(STEP_KINDS, repeat=4)][::3]
    # a second session begun on the same instance (with other equations, so that the sessions can be told apart)
    out += [["rebegin"], ["nobody", "rebegin"], ["nobody", "rebegin", "nobody"], ["set", "rebegin", "set"], ["rebegin", "rebegin", "nobody"]]
    # one run-steps request for two steps: the SAME settings object is logged for both steps
    out += [["steps2set"], ["nobody", "steps2set"], ["steps2set", "set"], ["steps2empty", "nobody"]]
    # the rest of the session through one stream-steps request (without a body / with settings): the save must follow the LAST streamed step
    out += [["stream"], ["nobody", "stream"], ["set", "stream"], ["streamset"], ["nobody", "streamset"]]
    # a session over TWO scenarios of the manager (marker "two" first)
    out += [["two", "nobody", "nobody"], ["two", "nobody", "nobody", "nobody"], ["two", "set", "nobody"]]
    return out


def make_factory(start, dt):
    def factory():
        import BPTK_Py
        m = scen.base_model(start, float(Fraction(str(start)) + 8 * Fraction(str(dt))), dt, name="c19")
        b = BPTK_Py.bptk()
        b.register_scenario_manager({"sm": {"model": m}})
        b.register_scenarios(scenario_manager="sm", scenarios={"A": {}, "B": {"constants": {"k": 2.5, "c": 0.5}}})
        return b
    return factory


def norm_log(log):
    """logs compared modulo the type of the step keys (float before the save, str after JSON)"""
    def nk(k):
        try:
            return float(k)
        except Exception:
            return k
    if not isinstance(log, dict):
        return log
    out = {}
    for k, v in log.items():
        out[nk(k)] = norm_inner(v)
    return out


def norm_inner(v):
    if isinstance(v, dict):
        out = {}
        for k, x in v.items():
            try:
                kk = float(k) if not isinstance(k, float) and str(k).replace(".", "", 1).replace("-", "", 1).isdigit() else k
            except Exception:
                kk = k
            out[kk] = norm_inner(x)
        return out
    return v


def run_case(spec, hist, compress, mode_whole, mode, env=None):
    """returns dict with before/after observations"""
    from BPTK_Py.server import BptkServer
    from BPTK_Py.externalstateadapter import FileAdapter
    start, dt = spec
    d = tempfile.mkdtemp(prefix="c19-", dir=os.environ.get("VCHECK_SCRATCH"))
    try:
        fac = make_factory(start, dt)
        app = BptkServer(__name__, fac, FileAdapter(compress, d))
        c = app.test_client()
        post = lambda url, body=None: c.post(url, data=json.dumps(body), content_type="application/json") if body is not None else c.post(url)
        inst = json.loads(post("/start-instance", {"timeout": {"hours": 1}}).data)["instance_uuid"]
        two = bool(hist) and hist[0] == "two"
        if two:
            hist = hist[1:]
        post("/%s/begin-session" % inst, {"scenario_managers": ["sm"], "scenarios": (["A", "B"] if two else ["A"]), "equations": scen.EQS})
        statuses = []
        for i, kind in enumerate(hist):
            if kind == "set":
                v = scen.sym_const("v%d" % i) if mode == "sym" else float((env or {}).get("v%d" % i, 2.0 + i))
                r = post("/%s/run-step" % inst, {"settings": {"sm": {"A": {"constants": {"k": v}}}}})
            elif kind == "empty":
                r = post("/%s/run-step" % inst, {"settings": {}})
            elif kind == "steps2set":
                v = scen.sym_const("v%d" % i) if mode == "sym" else float((env or {}).get("v%d" % i, 2.0 + i))
                r = post("/%s/run-steps" % inst, {"numberSteps": 2, "settings": {"sm": {"A": {"constants": {"k": v}}}}})
            elif kind == "steps2empty":
                r = post("/%s/run-steps" % inst, {"numberSteps": 2, "settings": {}})
            elif kind in ("stream", "streamset"):
                if kind == "streamset":
                    v = scen.sym_const("v%d" % i) if mode == "sym" else float((env or {}).get("v%d" % i, 2.0 + i))
                    r = post("/%s/stream-steps" % inst, {"settings": {"sm": {"A": {"constants": {"k": v}}}}})
                else:
                    r = post("/%s/stream-steps" % inst)
                r.get_data()                                  # the client reads the stream to its end
            elif kind == "rebegin":
                eqs = scen.EQS[:2] if (hist[:i + 1].count("rebegin") % 2) else scen.EQS[1:]
                r = post("/%s/begin-session" % inst, {"scenario_managers": ["sm"], "scenarios": ["A"], "equations": eqs})
            else:
                r = post("/%s/run-step" % inst)
            statuses.append(r.status_code)
        before_results = scen.loads(c.get("/%s/session-results" % inst).data)
        before_flat = scen.loads(c.get("/%s/flat-session-results" % inst).data)
        before_state = copy.deepcopy(app._instance_manager._instances[inst]["instance"].session_state)
        if mode_whole:
            rs = c.get("/save-state")
            statuses.append(rs.status_code)
        # a second server on the same directory (restart) - or the same server after the instance was dropped
        app2 = BptkServer(__name__, fac, FileAdapter(compress, d))
        c2 = app2.test_client()
        if mode_whole:
            c2.post("/load-state")
        r_after = c2.get("/%s/session-results" % inst)          # lazy restore for the per-instance mode
        after_results = scen.loads(r_after.data) if r_after.status_code == 200 else {"_status": r_after.status_code}
        r_flat = c2.get("/%s/flat-session-results" % inst)
        after_flat = scen.loads(r_flat.data) if r_flat.status_code == 200 else {"_status": r_flat.status_code}
        im2 = app2._instance_manager
        after_state = copy.deepcopy(im2._instances[inst]["instance"].session_state) if inst in im2._instances else None
        # "reproduces the session": the restored session also CONTINUES like the original one (a restore that looks right
        # but has brought the models to a different point shows in the next step)
        nb = c.post("/%s/run-step" % inst)
        na = c2.post("/%s/run-step" % inst)
        next_before = scen.loads(nb.data) if nb.status_code == 200 else {"_status": nb.status_code}
        next_after = scen.loads(na.data) if na.status_code == 200 else {"_status": na.status_code}
        return {"statuses": statuses, "before_results": before_results, "after_results": after_results,
                "before_flat": before_flat, "after_flat": after_flat,
                "before_state": before_state, "after_state": after_state, "next_before": next_before, "next_after": next_after}
    finally:
        shutil.rmtree(d, ignore_errors=True)


def compare(obs, pc, timeout_s, numeric=False, skip=()):
    """first mismatch, or None.  skip: sections not to look at (a recorded finding in one section - the compressed
    settings log - must not hide what is wrong in the sections after it)"""
    if any(s != 200 for s in obs["statuses"]):
        return "a request failed while an adapter is configured: statuses %s" % obs["statuses"], None
    if obs["after_state"] is None:
        return "the instance was not restored", None
    b, a = obs["before_state"], obs["after_state"]
    for key in ("scenarios", "scenario_managers", "equations", "starttime", "stoptime", "dt"):
        if b.get(key) != a.get(key):
            return "session state field %s is %r after the restore, was %r" % (key, a.get(key), b.get(key)), None
    if float(b["step"]) != float(a["step"]):
        return "session clock is %r after the restore, was %r" % (a["step"], b["step"]), None
    for lg in ("settings_log", "results_log"):
        if lg in skip:
            continue
        lb, la = norm_log(b[lg]), norm_log(a[lg])
        r = deep_equal(lb, la, pc, timeout_s, numeric, lg)
        if r:
            return r
    r = deep_equal(norm_inner(obs["before_results"]), norm_inner(obs["after_results"]), pc, timeout_s, numeric, "session-results")
    if r:
        return r
    r = deep_equal(obs["before_flat"], obs["after_flat"], pc, timeout_s, numeric, "flat-session-results")     # lists: order matters
    if r:
        return r
    if "next_before" in obs:
        r = deep_equal(norm_inner(obs["next_before"]), norm_inner(obs["next_after"]), pc, timeout_s, numeric, "next-step")
        if r:
            return r
    # the restored logs must also list their steps in time order (everything that iterates them relies on it)
    for lg in ("settings_log", "results_log"):
        if lg in skip:
            continue
        ks = [float(k) for k in a[lg].keys()]
        if ks != sorted(ks):
            return "%s: steps are stored in the order %s after the restore" % (lg, ks), None
    return None


def deep_equal(x, y, pc, timeout_s, numeric, path):
    if isinstance(x, dict) or isinstance(y, dict):
        if not (isinstance(x, dict) and isinstance(y, dict)):
            if (x is None and y == {}) or (y is None and x == {}):
                return None
            return "%s: %r before, %r after the restore" % (path, _short(x), _short(y)), None
        if sorted(map(str, x.keys())) != sorted(map(str, y.keys())):
            return "%s: keys %s before, %s after the restore" % (path, sorted(map(str, x.keys())), sorted(map(str, y.keys()))), None
        ymap = {str(k): v for k, v in y.items()}
        for k, v in x.items():
            r = deep_equal(v, ymap[str(k)], pc, timeout_s, numeric, "%s/%s" % (path, k))
            if r:
                return r
        return None
    if isinstance(x, (list, tuple)) and isinstance(y, (list, tuple)):
        if len(x) != len(y):
            return "%s: length differs" % path, None
        for i, (p, q) in enumerate(zip(x, y)):
            r = deep_equal(p, q, pc, timeout_s, numeric, "%s[%d]" % (path, i))
            if r:
                return r
        return None
    if S.is_sym(x) or S.is_sym(y):
        v = solve.prove_equal(S.term_of(x), S.term_of(y), pc, timeout_s=timeout_s)
        if v.status == "violated":
            return "%s differs after the restore" % path, solve.complete_model(v.model, S.term_of(x), S.term_of(y))
        if v.status == "unknown":
            return "UNKNOWN " + v.detail, None
        return None
    if isinstance(x, (int, float)) and isinstance(y, (int, float)) and not isinstance(x, bool):
        if abs(float(x) - float(y)) > 1e-9 * (1 + abs(float(x))):
            return "%s: %r before, %r after the restore" % (path, x, y), None
        return None
    if isinstance(x, str) and isinstance(y, str) and x != y:
        try:
            if eval(x) is not None and x == y:
                return None
        except Exception:
            pass
    if x != y:
        return "%s: %r before, %r after the restore" % (path, _short(x), _short(y)), None
    return None


def _short(x):
    s = repr(x)
    return s if len(s) < 80 else s[:77] + "..."


def check_case(spec, hist, compress, whole, timeout_s):
    def run():
        try:
            return ("ok", run_case(spec, hist, compress, whole, "sym"))
        except Exception as e:
            import traceback
            return ("exc", e, traceback.format_exc()[-600:])
    try:
        paths = S.explore(run, max_paths=8)
    except (S.PathCapExceeded, S.SolverUnknown, S.SymbolicEscape) as e:
        return "unknown", "explore: %r" % (e,)
    for p in paths:
        if p.exc is not None:
            return "unknown", "harness: %r" % (p.exc,)
        if p.out[0] == "exc":
            return "violated", {"_what": "raised %r" % (p.out[1],), "_tb": p.out[2]}
        r = compare(p.out[1], p.pc, timeout_s)
        if r:
            if r[0].startswith("UNKNOWN"):
                return "unknown", r[0]
            info = dict(r[1] or {})
            info["_what"] = r[0]
            if r[0].startswith("settings_log"):
                # look past the settings log as well
                r2 = compare(p.out[1], p.pc, timeout_s, skip=("settings_log",))
                if r2 and not r2[0].startswith("UNKNOWN"):
                    more = dict(r2[1] or {})
                    more["_what"], more["_skip"] = r2[0], ["settings_log"]
                    info["_more"] = more
            return "violated", info
    return "holds", None


def replay(case):
    if case.get("kind") == "compress":
        return replay_part1(case)
    spec, hist = tuple(case["spec"]), case["hist"]
    try:
        obs = run_case(spec, hist, case["compress"], case["whole"], "float", case.get("env", {}))
    except Exception as e:
        return True, "start=%s dt=%s steps %s compress=%s: raised %r" % (spec[0], spec[1], hist, case["compress"], e)
    r = compare(obs, (), 0, numeric=True, skip=tuple(case.get("skip", ())))
    return (r is not None), "start=%s dt=%s steps %s compress=%s whole-server=%s: %s" % (
        spec[0], spec[1], hist, case["compress"], case["whole"], r[0] if r else "state and results restored exactly")


def signature(spec, hist, compress, whole, what):
    mode = "compressed" if compress else "plain"
    if "request failed" in what:
        return "%s:request-failed:%s" % (mode, "+".join(sorted(set(hist))))
    if "clock" in what:
        return "%s:clock" % mode
    if "not restored" in what:
        return "%s:not-restored" % mode
    for lg in ("settings_log", "results_log", "session-results", "flat-session-results"):
        if what.startswith(lg):
            kind = "keys" if "keys" in what else "value"
            if kind == "keys":
                import re
                m = re.search(r"keys (\[.*?\]) before, (\[.*?\]) after", what)
                if m and m.group(1).count(",") != m.group(2).count(","):
                    kind = "key-count"          # steps lost or invented, not merely renumbered
            return "%s:%s:%s" % (mode, lg, kind)
    if what.startswith("next-step"):
        return "%s:next-step" % mode
    return "%s:other" % mode


def canary_clock_not_saved():
    """the saved step is reset to the start time"""
    import BPTK_Py.server.bptkServer as srv
    orig = srv.InstanceManager._get_instance_state

    def bad(self, uid):
        st = orig(self, uid)
        st.state["step"] = st.state["starttime"]
        return st
    srv.InstanceManager._get_instance_state = bad
    try:
        r, info = check_case((0.0, 1.0), ["set", "nobody"], False, False, 10)
    finally:
        srv.InstanceManager._get_instance_state = orig
    return r == "violated"


_G = {}


def _task(t):
    return check_case(t[0], t[1], t[2], t[3], _G["timeout"])


def run(tier):
    import BPTK_Py.server.bptkServer as srv
    import BPTK_Py.util.statecompression as sc
    from BPTK_Py.externalstateadapter import externalStateAdapter as esa
    from BPTK_Py.bptk import bptk
    rep = harness.Report(PID, tier, "model_checking", MODULE)
    rep.encoded(sc.compress_settings, sc.decompress_settings, sc.compress_results, sc.decompress_results,
                esa.ExternalStateAdapter.save_instance, esa.ExternalStateAdapter.load_instance, esa.ExternalStateAdapter.save_state,
                esa.ExternalStateAdapter.load_state, esa.FileAdapter._save_instance, esa.FileAdapter._load_instance,
                srv.InstanceManager._get_instance_state, srv.InstanceManager.reconstruct_instance, bptk._set_state,
                srv.BptkServer._save_state_resource, srv.BptkServer._load_state_resource, srv.BptkServer._ensure_instance_exists)
    # ---- part 1 in the background
    tmo = 120 if tier == "quick" else 600
    jobs = []
    for n in ((1, 2) if tier == "quick" else (1, 2, 3)):
        for mode in ("any", "present", "present-canonical-keys", "canonical"):
            for fn in ("_settings", "_results"):
                jobs.append((fn, tmo, {"C19_NSTEPS": str(n), "C19_MODE": mode}, (n, mode)))
    jobs.append(("_settings_twin", 60, {"C19_NSTEPS": "2", "C19_MODE": "any"}, (2, "twin")))
    ex = ThreadPoolExecutor(max_workers=8)
    futs = [ex.submit(chx.run_condition, HFILE, j[0], j[1], j[2]) for j in jobs]
    # ---- part 2
    _G["timeout"] = 20 if tier == "quick" else 60
    stubs = harness.Stubs()
    harness.install_sd_stubs(stubs)
    scen.install_json_hooks(stubs)
    tasks = []
    for spec in specs(tier):
        for hist in histories(tier):
            for compress in (False, True):
                for whole in (False, True):
                    if tier == "quick" and whole and len(hist) != 2:
                        continue
                    tasks.append((spec, hist, compress, whole))
    counts = {"holds": 0, "violated": 0, "unknown": 0}
    samples, bad = [], []
    try:
        results = harness.pmap(_task, tasks, procs=8, chunksize=4)
        for t, (r, err) in zip(tasks, results):
            st, info = ("unknown", err) if err else r
            counts[st] += 1
            if st == "violated":
                bad.append((t, info))
            elif st == "unknown":
                rep.inconcl("%s: %s" % (t, info))
            if len(samples) < 8 and (len(samples) < 3 or st != "holds"):
                samples.append({"start": t[0][0], "dt": t[0][1], "steps": t[1], "compress": t[2], "whole_server": t[3], "verdict": st,
                                "info": str(info.get("_what") if isinstance(info, dict) else "")[:200]})
        rep.canary("saved-clock-reset-to-start", canary_clock_not_saved())
    finally:
        stubs.restore()
    seen = set()
    flat_bad = []
    for t, info in bad:
        flat_bad.append((t, info, []))
        if isinstance(info.get("_more"), dict):
            flat_bad.append((t, info["_more"], info["_more"].get("_skip", [])))
    for (spec, hist, compress, whole), info, skip in flat_bad:
        sig = signature(spec, hist, compress, whole, info.get("_what", ""))
        if sig in seen:
            continue
        seen.add(sig)
        env = {k: float(v) for k, v in info.items() if isinstance(v, (Fraction, int, float)) and not isinstance(v, bool)}
        rep.candidate(sig, {"spec": list(spec), "hist": hist, "compress": compress, "whole": whole, "env": env, "skip": skip},
                      "start=%s dt=%s steps %s compress=%s whole=%s: %s" % (spec[0], spec[1], hist, compress, whole, info.get("_what")))
    # ---- collect part 1
    res1 = [f.result() for f in futs]
    ex.shutdown()
    confirmed = 0
    from checks.ch import c19_h as H
    for (fn, t, env, (n, mode)), r in zip(jobs, res1):
        label = "compression %s steps=%d mode=%s" % (fn, n, mode)
        if mode == "twin":
            if r.verdict != chx.VERDICT_CEX:
                rep.inconcl("reachability twin gave no witness: %s" % r.message[:200])
            continue
        if r.verdict == chx.VERDICT_CONFIRMED:
            confirmed += 1
        elif r.verdict == chx.VERDICT_CEX and r.args:
            steps = r.args.get("steps", r.args.get("_pos0"))
            steps = [tuple(s) for s in steps]
            f = fn.strip("_")
            why = H.roundtrip_settings(steps) if f == "settings" else H.roundtrip_results(steps)
            rep.candidate(classify(f, steps, why), {"kind": "compress", "fn": f, "steps": [list(s) for s in steps]}, "%s: %s" % (label, why))
        else:
            rep.inconcl("%s: CrossHair verdict %s (%s)" % (label, r.verdict, r.message[:160]))
        if len(samples) < 14:
            samples.append({"condition": label, "verdict": r.verdict, "seconds": round(r.seconds, 1)})
    rep.assume("part 1: logs of <= %d steps, step keys from %s, one manager/scenario, two constants, values in [-4,4]" % (2 if tier == "quick" else 3, H.KEYS),
               "part 2: FileAdapter in a temp directory; restore = a second server object on the same directory (lazy per-instance restore, or save-state/load-state for the whole server)",
               "logs are compared modulo the type of step keys (float before, str after JSON); an empty and a missing per-step settings entry are the same")
    rep.coverage.update({"states": len(tasks) + chx.STATS["conditions"], "transitions": max(1, counts["holds"] + confirmed),
                         "traces_validated_against_impl": len(rep.cands), "samples": samples, "verdicts": counts, "crosshair": dict(chx.STATS),
                         "exhaustive": True,
                         "explanation": "states = (run spec, step history, adapter mode, save mode) cases + CrossHair conditions on the compression functions",
                         "outside": "other adapters, logs larger than the bound"})
    return rep.finish()
