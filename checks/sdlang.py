"""Harness-owned model description language for SD models.

One description -> (i) construction calls against the REAL SD-DSL API, (ii) the reference
explicit-Euler recurrence.  The reference never reads DSL objects.  Both work with symbolic
leaves (inside a vsym exploration) and with plain floats (replay on the unmodified code).

expression trees
  ('el', name)  ('num', v)  ('lit', sym)  ('bin', op, l, r)  ('neg', x)
  ('fn', name, args...)   name in min max abs sqrt exp round1
  ('If', ('cmp', op, l, r), a, b)
  ('time',) ('dt',) ('start',)
  ('lookup', x, [(x0, y0), ...])          y: float or symbol name
  ('delay', elname, dsteps, init|None)    init: ('lit', s) | ('num', v) | ('el', constname)
  ('step', h, ksteps)                     step time = start + ksteps*dt
  ('pulse', vol, kfirst, kinterval)
  ('smooth', x, T, init)  ('trend', x, T, init)     T, init: ('lit', s) | ('num', v)

model description
  {'name': str, 'elements': [(kind, name, spec)]}   in definition order
     kind 'constant': spec = ('lit', s) | ('num', v)
     kind 'converter' | 'flow' | 'biflow': spec = tree
     kind 'stock': spec = (init, tree|None)      init: ('lit', s) | ('num', v) | ('el', constname)
"""
import operator
from fractions import Fraction

from vsym import sym as S, terms as T

PYOP = {"add": operator.add, "sub": operator.sub, "mul": operator.mul, "div": operator.truediv,
        "pow": operator.pow, "lt": operator.lt, "le": operator.le, "gt": operator.gt, "ge": operator.ge,
        "eq": operator.eq, "ne": operator.ne}
SYM = {"add": "+", "sub": "-", "mul": "*", "div": "/", "pow": "**", "lt": "<", "le": "<=", "gt": ">", "ge": ">=",
       "eq": "==", "ne": "!="}


def show(t):
    k = t[0]
    if k == "el":
        return t[1]
    if k == "num":
        return repr(t[1])
    if k == "lit":
        return "$" + t[1]
    if k in ("bin", "cmp"):
        return "(%s %s %s)" % (show(t[2]), SYM[t[1]], show(t[3]))
    if k == "neg":
        return "-%s" % show(t[1])
    if k == "fn":
        return "%s(%s)" % (t[1], ", ".join(show(x) for x in t[2:]))
    if k == "If":
        return "If(%s, %s, %s)" % (show(t[1]), show(t[2]), show(t[3]))
    if k in ("time", "dt", "start"):
        return k + "()"
    if k == "lookup":
        return "lookup(%s, %s)" % (show(t[1]), [(x, y) for x, y in t[2]])
    if k == "delay":
        return "delay(%s, %s*dt, %s)" % (t[1], t[2], show(t[3]) if t[3] else None)
    if k == "step":
        return "step(%s, start+%s*dt)" % (show(t[1]), t[2])
    if k == "pulse":
        return "pulse(%s, start+%s*dt, %s*dt)" % (show(t[1]), t[2], t[3])
    if k in ("smooth", "trend"):
        return "%s(%s, %s, %s)" % (k, show(t[1]), show(t[2]), show(t[3]))
    return repr(t)


def show_model(desc):
    out = []
    for kind, name, spec in desc["elements"]:
        if kind == "stock":
            out.append("stock %s init=%s eq=%s" % (name, show(spec[0]), show(spec[1]) if spec[1] else None))
        else:
            out.append("%s %s = %s" % (kind, name, show(spec)))
    return "; ".join(out)


def symbols(desc):
    """every symbolic leaf name used by the description"""
    out = []

    def go(t):
        if not isinstance(t, tuple):
            return
        if t[0] == "lit":
            if t[1] not in out:
                out.append(t[1])
            return
        if t[0] == "lookup":
            go(t[1])
            for _, y in t[2]:
                if isinstance(y, str) and y not in out:
                    out.append(y)
            return
        for x in t[1:]:
            if isinstance(x, tuple):
                go(x)
    for kind, name, spec in desc["elements"]:
        if kind == "stock":
            go(spec[0])
            go(spec[1])
        else:
            go(spec)
    return out


# ------------------------------------------------------------------ leaves

class SymLeaves(object):
    """symbolic mode: literals are rendered into the generated code as symbol expressions"""

    def dsl(self, name):
        return S.SymLit(name)

    def val(self, name):
        return S.v(name)


class FloatLeaves(object):
    def __init__(self, env):
        self.env = env

    def dsl(self, name):
        return float(self.env.get(name, 1.0))

    def val(self, name):
        return float(self.env.get(name, 1.0))


# ------------------------------------------------------------------ (i) the real DSL

class Built(object):
    def __init__(self, model, els):
        self.model, self.els = model, els


def build(desc, start, stop, dt, leaves, model_cls=None, model_spec=None):
    """model_spec: (start, stop, dt) the Model object is created with when a scenario later overrides them with
    (start, stop, dt); durations and absolute times in the description always refer to (start, dt)"""
    from BPTK_Py import Model
    from BPTK_Py import sd_functions as sd
    ms = model_spec or (start, stop, dt)
    m = (model_cls or Model)(starttime=float(ms[0]), stoptime=float(ms[1]), dt=float(ms[2]), name=desc.get("name", "m"))
    els = {}
    # declare everything first (equations may refer to later elements)
    for kind, name, spec in desc["elements"]:
        els[name] = getattr(m, kind)(name)

    def lit(t):
        if t[0] == "lit":
            return leaves.dsl(t[1])
        if t[0] == "num":
            return t[1]
        if t[0] == "el":
            return els[t[1]]
        raise ValueError(t)

    def go(t):
        k = t[0]
        if k == "el":
            return els[t[1]]
        if k in ("num", "lit"):
            return lit(t)
        if k in ("bin", "cmp"):
            return PYOP[t[1]](go(t[2]), go(t[3]))
        if k == "neg":
            return -go(t[1])
        if k == "fn":
            args = [go(x) for x in t[2:]]
            if t[1] == "round1":
                return sd.round(args[0], 1)
            return getattr(sd, t[1])(*args)
        if k == "If":
            return sd.If(go(t[1]), go(t[2]), go(t[3]))
        if k == "time":
            return sd.time()
        if k == "dt":
            return sd.dt(m)
        if k == "start":
            return sd.starttime(m)
        if k == "lookup":
            pts = [[float(x), (leaves.dsl(y) if isinstance(y, str) else float(y))] for x, y in t[2]]
            return sd.lookup(go(t[1]), pts)
        if k == "delay":
            dur = float(t[2] * Fraction(str(dt)))
            return sd.delay(m, els[t[1]], dur, lit(t[3]) if t[3] else None)
        if k == "step":
            return sd.step(go(t[1]), float(Fraction(str(start)) + t[2] * Fraction(str(dt))))
        if k == "pulse":
            return sd.pulse(m, go(t[1]), float(Fraction(str(start)) + t[2] * Fraction(str(dt))),
                            float(t[3] * Fraction(str(dt))))
        if k == "smooth":
            return sd.smooth(m, go(t[1]), lit(t[2]), lit(t[3]))
        if k == "trend":
            return sd.trend(m, go(t[1]), lit(t[2]), lit(t[3]))
        raise ValueError(k)

    for kind, name, spec in desc["elements"]:
        e = els[name]
        if kind == "constant":
            e.equation = lit(spec)
        elif kind == "stock":
            e.initial_value = lit(spec[0])
            if spec[1] is not None:
                e.equation = go(spec[1])
        else:
            e.equation = go(spec)
    return Built(m, els)


# ------------------------------------------------------------------ (ii) reference recurrence

class Ref(object):
    """explicit Euler on the grid start + k*dt.  Values are whatever the leaves provide
    (SymReal or float); control flow uses Python's own if (explorer forks in symbolic mode)."""

    def __init__(self, desc, start, dt, leaves, exp=None):
        self.desc, self.leaves = desc, leaves
        self.start, self.dt = Fraction(str(start)), Fraction(str(dt))
        self.kinds = {name: (kind, spec) for kind, name, spec in desc["elements"]}
        self.memo = {}
        self.aux = {}
        self.exp = exp

    def time(self, k):
        return float(self.start + k * self.dt)

    def fdt(self):
        return float(self.dt)

    def lit(self, t, k):
        if t[0] == "lit":
            return self.leaves.val(t[1])
        if t[0] == "num":
            return t[1]
        if t[0] == "el":
            return self.val(t[1], k)
        raise ValueError(t)

    def val(self, name, k):
        key = (name, k)
        if key in self.memo:
            return self.memo[key]
        kind, spec = self.kinds[name]
        if kind == "constant":
            r = self.lit(spec, k)
        elif kind in ("converter", "biflow"):
            r = self.ev(spec, k)
        elif kind == "flow":
            r = S.sym_max(0, self.ev(spec, k))
        elif kind == "stock":
            if k <= 0:
                r = self.lit(spec[0], 0)
            else:
                r = self.val(name, k - 1)
                if spec[1] is not None:
                    r = r + self.fdt() * self.ev(spec[1], k - 1)
        else:
            raise ValueError(kind)
        self.memo[key] = r
        return r

    def ev(self, t, k):
        kk = t[0]
        if kk == "el":
            return self.val(t[1], k)
        if kk in ("num", "lit"):
            return self.lit(t, k)
        if kk in ("bin", "cmp"):
            return PYOP[t[1]](self.ev(t[2], k), self.ev(t[3], k))
        if kk == "neg":
            return -self.ev(t[1], k)
        if kk == "fn":
            a = [self.ev(x, k) for x in t[2:]]
            n = t[1]
            if n == "min":
                return S.sym_min(a[0], a[1])
            if n == "max":
                return S.sym_max(a[0], a[1])
            if n == "abs":
                return abs(a[0])
            if n == "sqrt":
                return a[0] ** 0.5
            if n == "exp":
                return self.exp(a[0])
            if n == "round1":
                return round(a[0], 1)
            raise ValueError(n)
        if kk == "If":
            return self.ev(t[2], k) if self.ev(t[1], k) else self.ev(t[3], k)
        if kk == "time":
            return self.time(k)
        if kk == "dt":
            return self.fdt()
        if kk == "start":
            return float(self.start)
        if kk == "lookup":
            x = self.ev(t[1], k)
            pts = [(float(px), (self.leaves.val(py) if isinstance(py, str) else float(py))) for px, py in t[2]]
            if x <= pts[0][0]:
                return pts[0][1]
            if x >= pts[-1][0]:
                return pts[-1][1]
            for i in range(len(pts) - 1):
                if x <= pts[i + 1][0]:
                    (x0, y0), (x1, y1) = pts[i], pts[i + 1]
                    return y0 + (y1 - y0) * ((x - x0) / (x1 - x0))
            raise AssertionError("unreachable")
        if kk == "delay":
            j = k - t[2]
            if j >= 0:
                return self.val(t[1], j)
            return self.lit(t[3], 0) if t[3] else self.val(t[1], 0)
        if kk == "step":
            return self.ev(t[1], k) if k > t[2] else 0.0
        if kk == "pulse":
            j = k - t[2]
            hit = (j == 0) if t[3] == 0 else (j >= 0 and j % t[3] == 0)
            return self.ev(t[1], k) / self.fdt() if hit else 0.0
        if kk in ("smooth", "trend"):
            avg = self.avg(t, k)
            if kk == "smooth":
                return avg
            x = self.ev(t[1], k)
            return (x - avg) / (avg * self.lit(t[2], k))
        raise ValueError(kk)

    def avg(self, t, k):
        """first-order exponential average of t[1] with averaging time t[2], initial value t[3]"""
        key = (id(t), k)
        if key in self.aux:
            return self.aux[key]
        if k <= 0:
            r = self.lit(t[3], 0)
        else:
            prev = self.avg(t, k - 1)
            r = prev + self.fdt() * ((self.ev(t[1], k - 1) - prev) / self.lit(t[2], k - 1))
        self.aux[key] = r
        return r
