"""C05 - the simulated time grid is exact: no drift, gaps or duplicates for any dt.

Engine: vsym FP mode.  The expressions of the REAL normalize / timerange loop body and guard /
Model.memoize normalisation / bptk.run_step clock update are taken from the source AST and evaluated
over binary64 (QF_FP, RNE; Python's round(y,p) encoded exactly).  The grid index k is a solver
variable (0 <= k <= K): one query covers all run lengths and all positions up to K.  (start, dt)
range over a concrete lattice.  cvc5 decides; z3 cross-checks one point per run.
"""
import ast
import inspect
import random
import textwrap
from concurrent.futures import ThreadPoolExecutor
from decimal import Decimal
from fractions import Fraction

from vsym import fp, harness

PID = "C05"
MODULE = "checks.c05"


BASE = [(0.0, 0.1, 1000, False), (0.0, 0.25, 1000, True), (1.0, 0.5, 1000, True), (0.0, 0.2, 100, False),
        (0.5, 1.0, 1000, True), (0.25, 0.5, 1000, True), (0.1, 0.1, 1000, False)]


def lattice(tier):
    """(start, dt, K, with 3-step chains).  BASE is the claim of both tiers (every obligation must be decided); the
    thorough tier adds the points below under a wall-time budget - an obligation the solver does not decide there
    is reported as not explored"""
    if tier == "quick":
        return list(BASE)
    pts = list(BASE)
    for start in (0.0, 1.0, 2.5, 1990.0, 0.25):
        for dt in (1.0, 0.5, 0.25, 0.2, 0.1, 0.05, 0.04, 0.025, 0.125):
            binary = dt in (1.0, 0.5, 0.25, 0.125)
            pt = (start, dt, 10000 if binary else 1000, binary or start == 0.0)
            if (start, dt) not in [(b[0], b[1]) for b in BASE]:
                pts.append(pt)
    return pts


def decimals(x):
    d = Decimal(repr(float(x)))
    return max(0, -d.as_tuple().exponent)


def grid_terms(ctx, start, dt, K):
    """declares k; returns (G as a function of an offset j: G(k+j), p, S, M)"""
    p = max(decimals(start), decimals(dt))
    S = int(Decimal(repr(float(start))) * 10 ** p)
    M = int(Decimal(repr(float(dt))) * 10 ** p)
    ctx.decls.append("(declare-const k %s)" % fp.F64)
    ctx.asserts.append("(= k (fp.roundToIntegral RNE k))")
    ctx.asserts.append("(fp.leq %s k)" % fp.fpconst(0.0))
    ctx.asserts.append("(fp.leq k %s)" % fp.fpconst(float(K)))

    def G(j):
        kk = "k" if j == 0 else "(fp.add RNE k %s)" % fp.fpconst(float(j))
        num = ctx.define(fp.Sx("(fp.add RNE %s (fp.mul RNE %s %s))" % (fp.fpconst(float(S)), kk, fp.fpconst(float(M)))), "N")
        g = fp.Sx("(fp.div RNE %s %s)" % (num.s, fp.fpconst(float(10 ** p))))
        g.num = (num.s, p)
        return ctx.define(g, "G")
    return G, p, S, M


def G_py(start, dt, k):
    p = max(decimals(start), decimals(dt))
    S = int(Decimal(repr(float(start))) * 10 ** p)
    M = int(Decimal(repr(float(dt))) * 10 ** p)
    return float(Fraction(S + k * M, 10 ** p))


# ------------------------------------------------------------------ source extraction

def sources():
    import BPTK_Py.util.floating_point as fpm
    from BPTK_Py import Model
    from BPTK_Py.bptk import bptk
    from BPTK_Py.sdsimulation.sd_simulation import SdSimulation
    out = {}
    # timerange: loop update, while guard, emit guard
    tr = ast.parse(textwrap.dedent(inspect.getsource(fpm.timerange))).body[0]
    loop = [n for n in ast.walk(tr) if isinstance(n, ast.While)][0]
    out["tr_guard"] = loop.test
    emit_if = [n for n in loop.body if isinstance(n, ast.If)][0]
    out["tr_emit"] = emit_if.test
    upd = [n for n in loop.body if isinstance(n, ast.Assign) and ast.unparse(n.targets[0]) == "i"][0]
    out["tr_update"] = upd.value
    out["fpm"] = fpm
    # memoize: normalisation of the argument
    mm = ast.parse(textwrap.dedent(inspect.getsource(Model.memoize))).body[0]
    na = [n for n in ast.walk(mm) if isinstance(n, ast.Assign) and ast.unparse(n.targets[0]) == "normalized_arg"]
    if not na:
        raise fp.Unsupported("Model.memoize: assignment to normalized_arg not found")
    out["memo_norm"] = na[0].value
    # the time the equation is EVALUATED at, and the keys the result is looked up / stored under
    calls = [n for n in ast.walk(mm) if isinstance(n, ast.Call) and isinstance(n.func, ast.Subscript)
             and ast.unparse(n.func.value) == "self.equations" and n.args]
    if not calls:
        raise fp.Unsupported("Model.memoize: call of the equation not found")
    out["memo_call_arg"] = calls[0].args[0]
    keys = [n.slice for n in ast.walk(mm) if isinstance(n, ast.Subscript) and ast.unparse(n.value) == "mymemo"]
    keys += [n.left for n in ast.walk(mm) if isinstance(n, ast.Compare) and "mymemo" in ast.unparse(n.comparators[0])]
    out["memo_keys"] = keys
    out["model_globals"] = Model.memoize.__globals__
    # bptk.run_step: clock update
    rs = ast.parse(textwrap.dedent(inspect.getsource(bptk.run_step))).body[0]
    clk = [n for n in ast.walk(rs) if isinstance(n, ast.Assign) and ast.unparse(n.targets[0]).replace("'", '"') == 'self.session_state["step"]']
    if not clk:
        raise fp.Unsupported("bptk.run_step: clock update not found")
    out["clock"] = clk[-1].value
    out["bptk_globals"] = bptk.run_step.__globals__
    # SdSimulation.__simulate: the range it iterates
    sim = ast.parse(textwrap.dedent(inspect.getsource(SdSimulation._SdSimulation__simulate))).body[0]
    calls = [n for n in ast.walk(sim) if isinstance(n, ast.Call) and ast.unparse(n.func) == "timerange"]
    if not calls:
        raise fp.Unsupported("SdSimulation.__simulate: timerange call not found")
    out["sim_range_stop"] = calls[0].args[1]
    out["sim_exclusive"] = True
    for kw in calls[0].keywords:
        if kw.arg == "exclusive":
            out["sim_exclusive"] = ast.literal_eval(kw.value)
    if len(calls[0].args) > 3:
        out["sim_exclusive"] = ast.literal_eval(calls[0].args[3])
    return out


def session_states(start, dt):
    """what the REAL begin_session stores as clock parameters for a model with (start, dt): once with the session's
    start time and dt left at their defaults, once with both given explicitly -> {style: (starttime, dt, step)}"""
    import BPTK_Py
    from BPTK_Py import Model
    out = {}
    for style in ("default-args", "explicit-args"):
        m = Model(starttime=start, stoptime=G_py(start, dt, 4), dt=dt, name="clk")
        c = m.constant("c")
        c.equation = 1.0
        b = BPTK_Py.bptk()
        b.register_scenario_manager({"smc": {"model": m}})
        b.register_scenarios(scenario_manager="smc", scenarios={"s": {}})
        kw = {} if style == "default-args" else {"starttime": start, "dt": dt}
        b.begin_session(scenarios=["s"], scenario_managers=["smc"], equations=["c"], **kw)
        ss = b.session_state
        out[style] = (float(ss["starttime"]), float(ss["dt"]), float(ss["step"]))
        b.end_session()
    return out


# ------------------------------------------------------------------ obligations

def obligations(src, start, dt, K, chains=True):
    """list of (name, smt, get_values); every query asserts the NEGATION of the obligation (unsat = holds)"""
    fpm = src["fpm"]
    obs = []

    def new():
        ctx = fp.Ctx([fpm.__dict__])
        G, p, S, M = grid_terms(ctx, start, dt, K)
        return ctx, G

    def neq(a, b):
        return fp.b_not(fp.same_decimal(fp.lift(a), fp.lift(b))).s

    # 2 step: timerange loop body maps G(k) to G(k+1)
    ctx, G = new()
    nxt = fp.eval_expr(ctx, src["tr_update"], {"i": G(0), "dt": dt, "starttime": start})
    obs.append(("timerange-step", fp.script(ctx, [neq(nxt, G(1))], ["k"])))
    # 3 guard, as SdSimulation uses it: stop = until + dt with until = G(k) (=G(n)); emits G(n), stops before G(n+1);
    #   strict monotonicity gives "every earlier grid point is emitted"
    sim_env = {"until": None, "self.mod.dt": dt, "self.dt": dt}
    ctx, G = new()
    stop = fp.eval_expr(ctx, src["sim_range_stop"], {"until": G(0), "self.mod.dt": dt, "self.dt": dt, "dt": dt})
    stop = ctx.define(fp.lift(stop), "stop")
    g_in = fp.b_and(fp.eval_expr(ctx, src["tr_guard"], {"i": G(0), "stoptime": stop}),
                    fp.eval_expr(ctx, src["tr_emit"], {"i": G(0), "stoptime": stop, "exclusive": src["sim_exclusive"]}))
    obs.append(("guard-emits-stop", fp.script(ctx, [fp.b_not(g_in).s], ["k"])))
    ctx, G = new()
    stop = ctx.define(fp.lift(fp.eval_expr(ctx, src["sim_range_stop"], {"until": G(0), "self.mod.dt": dt, "self.dt": dt, "dt": dt})), "stop")
    g_out = fp.b_and(fp.eval_expr(ctx, src["tr_guard"], {"i": G(1), "stoptime": stop}),
                     fp.eval_expr(ctx, src["tr_emit"], {"i": G(1), "stoptime": stop, "exclusive": src["sim_exclusive"]}))
    obs.append(("guard-stops-after-stop", fp.script(ctx, [g_out.s], ["k"])))
    ctx, G = new()
    obs.append(("grid-strictly-increasing", fp.script(ctx, ["(not (fp.lt %s %s))" % (G(0).s, G(1).s)], ["k"])))
    # 4 routes through Model.memoize's normalisation
    menv = lambda arg: {"arg": arg, "self.dt": dt, "self.starttime": start}

    def memo(ctx, arg, what=None):
        """the time Model.memoize evaluates the equation at (default), or one of its memo keys, for the argument `arg`"""
        sub = fp.Ctx([src["model_globals"]])
        sub.decls, sub.asserts, sub.inlined, sub.n = ctx.decls, ctx.asserts, ctx.inlined, ctx.n
        r = fp.eval_expr(sub, src["memo_norm"], menv(arg))
        expr = what if what is not None else src["memo_call_arg"]
        if ast.unparse(expr) != "normalized_arg":
            env2 = dict(menv(arg))
            env2["normalized_arg"] = r
            r = fp.eval_expr(sub, expr, env2)
        ctx.n = sub.n
        return r
    ctx, G = new()
    obs.append(("memo-key(G(k))", fp.script(ctx, [neq(memo(ctx, G(0)), G(0))], ["k"])))
    ctx, G = new()
    obs.append(("memo-key(G(k+1)-dt)", fp.script(ctx, [neq(memo(ctx, fp.fp_bin("sub", G(1), dt)), G(0))], ["k"])))
    ctx, G = new()
    obs.append(("memo-key(G(k)+dt)", fp.script(ctx, [neq(memo(ctx, fp.fp_bin("add", G(0), dt)), G(1))], ["k"])))
    ctx, G = new()
    raw = fp.fp_bin("add", start, fp.fp_bin("mul", fp.Sx("k"), dt))
    obs.append(("memo-key(start+k*dt)", fp.script(ctx, [neq(memo(ctx, raw), G(0))], ["k"])))
    # the keys the result is looked up / stored under must be the same grid value (only if they are not the normalised name itself)
    for kexpr in src["memo_keys"]:
        if ast.unparse(kexpr) != "normalized_arg":
            ctx, G = new()
            obs.append(("memo-key(G(k+1)-dt)", fp.script(ctx, [neq(memo(ctx, fp.fp_bin("sub", G(1), dt), kexpr), G(0))], ["k"])))
    if chains:
        ctx, G = new()
        chain = fp.fp_bin("add", fp.fp_bin("add", fp.fp_bin("add", G(0), dt), dt), dt)
        obs.append(("memo-key(G(k)+dt+dt+dt)", fp.script(ctx, [neq(memo(ctx, chain), G(3))], ["k"])))
        ctx, G = new()
        chain = fp.fp_bin("sub", fp.fp_bin("sub", G(2), dt), dt)
        obs.append(("memo-key(G(k+2)-dt-dt)", fp.script(ctx, [neq(memo(ctx, chain), G(0))], ["k"])))
    # 5 session clock: the parameters are those the real begin_session stores (concretely, per lattice point)
    done = {}
    for style, (ss_start, ss_dt, ss_step) in sorted(session_states(start, dt).items(), reverse=True):
        if ss_step != float(start):
            obs.append(("session-start@" + style, "CONCRETE begin_session puts the clock at %r, the model starts at %r" % (ss_step, start)))
        if (ss_start, ss_dt) in done:
            continue                                   # same parameters: the obligation already emitted covers this style
        done[(ss_start, ss_dt)] = style
        ctx, G = new()
        g0 = G(0)
        sub = fp.Ctx([src["bptk_globals"], fpm.__dict__])
        sub.decls, sub.asserts, sub.inlined, sub.n = ctx.decls, ctx.asserts, ctx.inlined, ctx.n
        clk = fp.eval_expr(sub, src["clock"], {"step": g0, "dt": ss_dt, "self.session_state": {"starttime": ss_start, "dt": ss_dt, "step": None},
                                               "starttime": ss_start, "stoptime": None})
        ctx.n = sub.n
        obs.append(("session-clock" if style == "explicit-args" else "session-clock@" + style, fp.script(ctx, [neq(clk, G(1))], ["k"])))
    # reachability witness: the assumptions are satisfiable
    ctx, G = new()
    obs.append(("witness", fp.script(ctx, ["(fp.eq k %s)" % fp.fpconst(3.0)], ["k"])))
    return obs


# ------------------------------------------------------------------ replay on the real code

def replay(case):
    import BPTK_Py.util.floating_point as fpm
    start, dt, k, name = float(case["start"]), float(case["dt"]), int(case["k"]), case["name"]
    g = lambda j: G_py(start, dt, k + j)
    prec = max(fpm.scale(start), fpm.scale(dt))
    if name.startswith("session-start@"):
        st = session_states(start, dt)[name.split("@")[1]]
        return st[2] != start, "begin_session (%s) puts the clock at %r; the model starts at %r" % (name.split("@")[1], st[2], start)
    if name.startswith("session-clock"):
        import BPTK_Py
        from BPTK_Py import Model
        m = Model(starttime=start, stoptime=g(2), dt=dt, name="clk")
        c = m.constant("c")
        c.equation = 1.0
        b = BPTK_Py.bptk()
        b.register_scenario_manager({"smc": {"model": m}})
        b.register_scenarios(scenario_manager="smc", scenarios={"s": {}})
        kw = {} if name.endswith("@default-args") else {"starttime": start, "dt": dt}
        b.begin_session(scenarios=["s"], scenario_managers=["smc"], equations=["c"], **kw)
        b.session_state["step"] = g(0)
        b.run_step()
        got = b.session_state["step"]
        return got != g(1), "session clock after a step at t=%r with dt=%r is %r, grid value is %r" % (g(0), dt, got, g(1))
    if name == "plot-window-concrete":
        bad = [x for x in concrete_plot_probe() if x[0] == start and x[2] == dt and x[1] == float(case.get("stop", 0.0))]
        return bool(bad), ("Element.plot(starttime=%r, stoptime=%r, dt=%r) %s" % (start, case.get("stop"), dt, bad[0][3])) if bad else "Element.plot reports the window's grid"
    if name == "run-grid-concrete":
        bad = [x for x in concrete_run_probe([(start, dt, 0, False)], n=k)]
        return bool(bad), ("run_scenarios of a scenario with runspecs start=%r dt=%r %s" % (start, dt, bad[0][4])) if bad else "run_scenarios reports the scenario's grid"
    if name == "timerange-concrete":
        want = [G_py(start, dt, i) for i in range(k + 1)]
        got = list(fpm.timerange(start, want[-1], dt, exclusive=False))
        return got != want, "timerange(%r, %r, %r, exclusive=False) yields %d points ending %r; the grid has %d points ending %r" % (
            start, want[-1], dt, len(got), got[-2:], len(want), want[-2:])
    if name == "timerange-step":
        tr = fpm.timerange(g(0), g(0) + 3 * dt, dt)
        # the real loop started at G(k)?  no: timerange offsets from its own start; replay the whole range from start
        full = fpm.timerange(start, g(1) + dt / 2, dt, exclusive=False)
        want = [G_py(start, dt, i) for i in range(0, k + 2)]
        return full != want, "timerange(%r, ..., %r) yields %r..., grid is %r..." % (start, dt, full[-3:], want[-3:])
    if name.startswith("guard") or name == "grid-strictly-increasing":
        full = fpm.timerange(start, g(0) + dt, dt)
        want = [G_py(start, dt, i) for i in range(0, k + 1)]
        return full != want, "timerange(%r, %r+dt, %r) yields %d entries ending %r, expected %d ending %r" % (
            start, g(0), dt, len(full), full[-2:], len(want), want[-2:])
    if name.startswith("memo-key"):
        from BPTK_Py import Model
        m = Model(starttime=start, stoptime=g(4), dt=dt)
        seen = []
        m.equations["probe"] = lambda t: seen.append(t) or t
        arg, want = {"memo-key(G(k))": (g(0), g(0)), "memo-key(G(k+1)-dt)": (g(1) - dt, g(0)), "memo-key(G(k)+dt)": (g(0) + dt, g(1)),
                     "memo-key(start+k*dt)": (start + k * dt, g(0)), "memo-key(G(k)+dt+dt+dt)": (g(0) + dt + dt + dt, g(3)),
                     "memo-key(G(k+2)-dt-dt)": (g(2) - dt - dt, g(0))}[name]
        m.memoize("probe", arg)
        return seen[-1] != want, "memoize normalises %r to %r, grid value is %r (start=%r dt=%r)" % (arg, seen[-1], want, start, dt)
    return False, "unknown obligation %s" % name


def concrete_probe(points):
    """the REAL timerange, as SdSimulation calls it, on concrete lattice inputs: run lengths 0..60 and every 37th up to
    K.  This is not the deciding step (the solver queries are); it validates that what the queries encode is what the
    real function does, and it still yields a replayable violation when the source no longer has the encodable shape."""
    import BPTK_Py.util.floating_point as fpm
    bad = []
    for (start, dt, K, _) in points:
        for n in list(range(0, 61)) + list(range(61, K + 1, 37)):
            want = [G_py(start, dt, i) for i in range(n + 1)]
            try:
                got = list(fpm.timerange(start, want[-1], dt, exclusive=False))
            except Exception as e:
                bad.append((start, dt, n, "raised %r" % (e,)))
                break
            if got != want:
                bad.append((start, dt, n, "yields %d points ending %r, the grid has %d ending %r" % (len(got), got[-2:], len(want), want[-2:])))
                break
    return bad


def concrete_run_probe(points, n=7):
    """the grid a batch run reports when the scenario's run specs (not those the model object was built with) define it:
    bptk.run_scenarios(return_format='df') must list exactly G(0..n).  Concrete, like concrete_probe: it ties the FP
    obligations (which are about expressions) to the values that actually reach them."""
    import BPTK_Py
    from BPTK_Py import Model
    bad = []
    for (start, dt, K, _) in points:
        want = [G_py(start, dt, i) for i in range(n + 1)]
        other = 1.0 if dt != 1.0 else 0.5
        for first_then_second in (1, 2):
            m = Model(starttime=0.0, stoptime=2.0, dt=other, name="probe")
            c = m.constant("c")
            c.equation = 1.0
            b = BPTK_Py.bptk()
            b.register_scenario_manager({"smp": {"model": m}})
            b.register_scenarios(scenario_manager="smp", scenarios={"s": {"runspecs": {"starttime": start, "stoptime": want[-1], "dt": dt}}})
            try:
                for _ in range(first_then_second):
                    df = b.run_scenarios(scenarios=["s"], scenario_managers=["smp"], equations=["c"], return_format="df")
                got = [float(t) for t in df.index]
            except Exception as e:
                bad.append((start, dt, n, first_then_second, "raised %r" % (e,)))
                break
            if got != want:
                bad.append((start, dt, n, first_then_second, "reports %d rows ending %r, the grid has %d ending %r" % (len(got), got[-2:], len(want), want[-2:])))
                break
    return bad


def concrete_plot_probe():
    """Element.plot(return_df=True) with explicit window bounds, including bounds that are 0.0, on a model that starts at a
    negative time: one row per grid point of the window, nothing else"""
    from BPTK_Py import Model
    bad = []
    for dt in (0.25, 0.1, 1.0):
        m = Model(starttime=-1.0, stoptime=1.0, dt=dt, name="plotprobe")
        c = m.converter("c")
        c.equation = 1.0
        fd = Fraction(repr(dt))
        for (a, b_) in ((-1.0, 0.0), (0.0, 1.0), (-1.0, 1.0), (0.0, 0.0)):
            fa, fb = Fraction(repr(a)), Fraction(repr(b_))
            want = [float(fa + k * fd) for k in range(int((fb - fa) / fd) + 1)]
            try:
                df = c.plot(starttime=a, stoptime=b_, dt=dt, return_df=True)
                got = [float(t) for t in df.index]
            except Exception as e:
                bad.append((a, b_, dt, "raised %r" % (e,)))
                continue
            if got != want:
                bad.append((a, b_, dt, "reports %d rows %r..%r, the window has %d rows %r..%r" % (len(got), got[:1], got[-1:], len(want), want[:1], want[-1:])))
    return bad


# ------------------------------------------------------------------ self-validation of round(y, p)

def validate_round(n=24, seed=0):
    """the exact round(y,p) encoding against Python's round on concrete doubles (one tiny query each)"""
    rnd = random.Random(seed)
    jobs = []
    for i in range(n):
        p = rnd.choice([1, 2, 3])
        kind = i % 4
        if kind == 0:
            y = rnd.uniform(-50, 50)
        elif kind == 1:
            y = (rnd.randrange(-2000, 2000) * 2 + 1) / (2 * 10 ** p)           # decimal ties (mostly not representable)
        elif kind == 2:
            y = rnd.randrange(-200, 200) / 8.0 + 0.0625 * rnd.randrange(0, 2)  # binary fractions: exact ties for p=1..3
        else:
            y = rnd.randrange(0, 5000) / 10 ** p + rnd.choice([1e-13, -1e-13, 0.0])
        ctx = fp.Ctx([{}])
        r = fp.round_p(ctx, y, p)
        ctx.decls.append("(declare-const res %s)" % fp.F64)
        ctx.asserts.append("(= res %s)" % r.s)
        jobs.append((y, p, fp.script(ctx, [], ["res"])))
    bad = []
    with ThreadPoolExecutor(max_workers=8) as ex:
        res = list(ex.map(lambda j: fp.solve(j[2], 30), jobs))
    for (y, p, smt), (r, out) in zip(jobs, res):
        if r != "sat":
            bad.append("round(%r,%d): %s" % (y, p, r))
            continue
        v = fp.model_values(out, ["res"]).get("res")
        if v != round(y, p):
            bad.append("round(%r,%d): encoding %r, python %r" % (y, p, v, round(y, p)))
    return bad


# ------------------------------------------------------------------ main

def run(tier):
    import BPTK_Py.util.floating_point as fpm
    from BPTK_Py import Model
    from BPTK_Py.bptk import bptk
    from BPTK_Py.sdsimulation.sd_simulation import SdSimulation
    from BPTK_Py.sddsl.element import Element
    rep = harness.Report(PID, tier, "model_checking", MODULE)
    rep.encoded(fpm.normalize, fpm.timerange, fpm.precision_and_scale, fpm.scale, Model.memoize, bptk.run_step, bptk.begin_session, Element.plot,
                SdSimulation._SdSimulation__simulate)
    tmo = 170 if tier == "quick" else 400
    import os
    import time as _time
    budget = float(os.environ.get("VERIF_BUDGET_S", "0") or 0)
    deadline = (_time.time() + budget) if budget else None
    base_pts = set((b[0], b[1]) for b in BASE)
    bad = validate_round(24 if tier == "quick" else 80, harness.seed())
    for b in bad:
        rep.inconcl("self-validation of the round(y,p) encoding failed: %s" % b)
    for (st_, dt_, n_, what) in concrete_probe(BASE):
        rep.candidate("timerange-concrete:dt=%g" % dt_, {"start": st_, "dt": dt_, "k": n_, "name": "timerange-concrete"},
                      "timerange(%r, G(%d), %r, exclusive=False) %s" % (st_, n_, dt_, what))
    for (st_, dt_, n_, runs_, what) in concrete_run_probe(BASE):
        rep.candidate("run-grid-concrete:dt=%g" % dt_, {"start": st_, "dt": dt_, "k": n_, "name": "run-grid-concrete", "runs": runs_},
                      "run_scenarios (run %d) of a scenario with runspecs start=%r dt=%r %s" % (runs_, st_, dt_, what))
    for (a_, b_, dt_, what) in concrete_plot_probe():
        rep.candidate("plot-window-concrete:%g..%g" % (a_, b_), {"start": a_, "dt": dt_, "k": 0, "name": "plot-window-concrete", "stop": b_},
                      "Element.plot(starttime=%r, stoptime=%r, dt=%r, return_df=True) %s" % (a_, b_, dt_, what))
    try:
        src = sources()
    except Exception as e:
        rep.inconcl("source extraction (the loop/normalisation no longer has the shape the encoder understands): %r" % (e,))
        return rep.finish()
    jobs = []
    for (start, dt, K, chains) in lattice(tier):
        try:
            for name, smt in obligations(src, start, dt, K, chains):
                if smt.startswith("CONCRETE"):
                    rep.candidate("session:start-position", {"start": start, "dt": dt, "k": 0, "name": name}, "start=%s dt=%s: %s" % (start, dt, smt))
                    continue
                jobs.append((start, dt, K, name, smt))
        except fp.Unsupported as e:
            rep.inconcl("encoding of (start=%s, dt=%s): %s" % (start, dt, e))
    # canary: the bare clock update step+dt must be refuted for dt = 0.1
    ctx = fp.Ctx([fpm.__dict__])
    G, p, S, M = grid_terms(ctx, 0.0, 0.1, 1000)
    bare = fp.fp_bin("add", G(0), 0.1)
    jobs.append((0.0, 0.1, 1000, "canary:bare-clock", fp.script(ctx, ["(not (fp.eq %s %s))" % (bare.s, G(1).s)], ["k"])))
    # canary: memoize without normalisation
    ctx = fp.Ctx([fpm.__dict__])
    G, p, S, M = grid_terms(ctx, 0.0, 0.1, 1000)
    jobs.append((0.0, 0.1, 1000, "canary:memo-unnormalised", fp.script(ctx, ["(not (fp.eq %s %s))" % (fp.fp_bin("sub", G(1), 0.1).s, G(0).s)], ["k"])))
    def solve_job(j):
        required = (j[0], j[1]) in base_pts or j[3].startswith("canary")
        t = tmo if not j[3].startswith("canary") else 120
        if not required and deadline is not None:
            left = deadline - _time.time()
            if left < 20:
                return ("skipped", "not started within the time budget")
            t = max(20, min(300, int(left)))
        return fp.solve(j[4], t)
    jobs.sort(key=lambda j: 0 if ((j[0], j[1]) in base_pts or j[3].startswith("canary")) else 1)
    with ThreadPoolExecutor(max_workers=harness.nprocs()) as ex:
        res = list(ex.map(solve_job, jobs))
    samples, unsat = [], 0
    per_point = {}
    for (start, dt, K, name, smt), (r, out) in zip(jobs, res):
        if name.startswith("canary"):
            rep.canary(name.split(":")[1], r == "sat")
            continue
        if name == "witness":
            if r == "skipped":
                continue
            if r != "sat":
                rep.inconcl("witness (start=%s, dt=%s) is %s: assumptions unsatisfiable or solver failure" % (start, dt, r))
            continue
        per_point.setdefault("start=%g,dt=%g,K=%d" % (start, dt, K), {})[name] = r
        if r == "unsat":
            unsat += 1
        elif r == "sat":
            k = fp.model_values(out, ["k"]).get("k")
            if k is None:
                rep.inconcl("%s (start=%s dt=%s): model could not be parsed" % (name, start, dt))
                continue
            sig = "clock:step+dt" if name == "session-clock" else "%s:dt=%g" % (name, dt)
            if name.startswith("session-clock@"):
                sig = "clock:%s" % name.split("@")[1]
            rep.candidate(sig, {"start": start, "dt": dt, "k": int(k), "name": name},
                          "%s fails at start=%s dt=%s k=%d (t=%r)" % (name, start, dt, int(k), G_py(start, dt, int(k))))
        else:
            text = "%s (start=%s dt=%s K=%d): solver %s %s" % (name, start, dt, K, r, out[-300:] if r == "error" else "")
            if (start, dt) not in base_pts and r in ("skipped", "unknown", "timeout"):
                text = harness.SKIP_MARK + ": " + text
            rep.inconcl(text)
        if len(samples) < 6:
            samples.append({"obligation": name, "start": start, "dt": dt, "K": K, "verdict": r})
    # z3 cross-check of one unsat obligation (second solver)
    for (start, dt, K, name, smt), (r, out) in zip(jobs, res):
        if r == "unsat" and name == "memo-key(G(k))" and dt == 0.25:
            r2, _ = fp.solve(smt, 120, solver="z3")
            if r2 == "sat":
                rep.inconcl("solver disagreement on %s: cvc5 unsat, z3 sat" % name)
            rep.notes.append("z3 cross-check of %s (start=%s dt=%s): %s" % (name, start, dt, r2))
            break
    rep.assume("binary64, round-to-nearest-even; Python round(y,p) = correctly rounded decimal rounding (half-even on the exact binary value), encoded exactly and validated against CPython on concrete doubles each run",
               "(start, dt) on the lattice; grid index 0 <= k <= K symbolic; |start + k*dt| < 2^50",
               "precision p is computed by the real precision_and_scale for each lattice point (concretely)",
               "the session clock's parameters (start time, dt, first position) are read from the real begin_session run concretely per lattice point, with the session's start/dt arguments defaulted and given explicitly",
               "cvc5 --fp-exp decides; z3 5.1 cross-checks one obligation per run")
    rep.coverage.update({"states": len(jobs), "transitions": max(1, unsat), "traces_validated_against_impl": len(rep.cands),
                         "samples": samples, "per_lattice_point": per_point, "inlined_functions": ["floating_point.normalize"],
                         "solver": {k: v for k, v in fp.STATS.items() if k != "samples"}, "smt_query_sample": fp.STATS["samples"][:1],
                         "explanation": "states = SMT queries (each covers all k <= K of one lattice point); transitions = queries unsat",
                         "exhaustive": False,
                         "outside": "dt with more than 3 decimals or outside the lattice; k > K; chains of more than 3 un-normalised additions"})
    return rep.finish()
