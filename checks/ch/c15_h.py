"""CrossHair harness for C15 (bearer token decorator).  The REAL BptkServer.token_required wraps a probe
view; `request` and `make_response` as seen by the server module are stubs carrying a symbolic presence
flag and a symbolic Authorization header; the configured token is symbolic too."""
import os

import BPTK_Py.server.bptkServer as srv

HMAX = int(os.environ.get("C15_HMAX", "5"))
TMAX = int(os.environ.get("C15_TMAX", "2"))


class _Headers(object):
    def __init__(self, present, value):
        self._p, self._v = present, value

    def __contains__(self, key):
        return key == "Authorization" and self._p

    def __getitem__(self, key):
        if key == "Authorization" and self._p:
            return self._v
        raise KeyError(key)

    def get(self, key, default=None):
        return self._v if (key == "Authorization" and self._p) else default


class _Request(object):
    def __init__(self, present, value):
        self.headers = _Headers(present, value)


class _Probe(object):
    """stands for the server object: only the attributes the decorator reads"""

    def __init__(self, token):
        self._bearer_token = token
        self.served = 0
        self.touched = []

    def __setattr__(self, k, v):
        object.__setattr__(self, k, v)

    @srv.BptkServer.token_required
    def view(self, arg=None):
        self.served += 1
        return ("served", 200)


def attempt(present, header, token):
    """(served?, status or None, raised?)"""
    made = []
    old_req, old_mk = srv.request, srv.make_response
    srv.request = _Request(present, header)
    srv.make_response = lambda body, code=200: made.append(code) or ("refused", code)
    probe = _Probe(token)
    try:
        try:
            r = probe.view("x")
        except Exception:  # noqa: CrossHair control flow uses BaseException
            return (probe.served > 0, None, True)
        return (probe.served > 0, r[1] if isinstance(r, tuple) else None, False)
    finally:
        srv.request, srv.make_response = old_req, old_mk


def presents_exactly(present, header, token):
    if not present:
        return False
    parts = header.split(" ")
    return len(parts) > 1 and parts[1] == token


def _served_only_with_token(present: bool, header: str, token: str) -> bool:
    """
    pre: len(header) <= HMAX and len(token) <= TMAX
    post: _
    """
    served, status, raised = attempt(present, header, token)
    if served:
        return presents_exactly(present, header, token)
    # refused: non-success status or an exception (Flask turns it into 500)
    return raised or (status is not None and status >= 400)


def _served_only_with_token_twin(present: bool, header: str, token: str) -> bool:
    """
    reachability: some request is served
    pre: len(header) <= HMAX and len(token) <= TMAX
    post: not _
    """
    served, status, raised = attempt(present, header, token)
    return served


def _served_when_token_presented(header: str, token: str) -> bool:
    """
    liveness side (sanity of the harness, not part of the property): the right token is served
    pre: len(header) <= HMAX and len(token) <= TMAX and presents_exactly(True, header, token)
    post: _
    """
    served, status, raised = attempt(True, header, token)
    return served
