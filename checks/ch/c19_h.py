"""CrossHair harness for C19 (state compression round trip).  The real compress_* / decompress_* functions
run on symbolic logs.  Steps are given as a list (key, present?, c1 present?, c1 value, c2 present?, c2 value);
the harness builds the dict the session would have logged (no dictionaries keyed by symbolic values are
hashed inside the harness itself: keys come from a small concrete menu selected by a symbolic index)."""
import os
from typing import List, Tuple

from BPTK_Py.util import statecompression as sc

NSTEPS = int(os.environ.get("C19_NSTEPS", "2"))
MODE = os.environ.get("C19_MODE", "any")
KEYS = [0.0, 0.5, 1.0, 2.0, 3.0, 2.5]


def build_settings(steps):
    log = {}
    for (ki, present, p1, v1, p2, v2) in steps:
        key = KEYS[ki]
        if not present:
            log[key] = None
            continue
        consts = {}
        if p1:
            consts["c1"] = v1
        if p2:
            consts["c2"] = v2
        log[key] = {"sm": {"A": {"constants": consts}}} if (p1 or p2) else {}
    return log


def build_results(steps):
    log = {}
    for (ki, present, p1, v1, p2, v2) in steps:
        key = KEYS[ki]
        log[key] = {"sm": {"A": {"S": {key: v1}, "f": {key: v2}}}}
    return log


def expected_settings(log):
    """what the uncompressed adapter path delivers: the same log with keys str(step)"""
    return {str(k): v for k, v in log.items()}


def expected_results(log):
    out = {}
    for k, v in log.items():
        out[str(k)] = {m: {s: {e: {str(t): x for t, x in tv.items()} for e, tv in eqs.items()} for s, eqs in scs.items()} for m, scs in v.items()}
    return out


def roundtrip_settings(steps):
    log = build_settings(steps)
    try:
        back = sc.decompress_settings(sc.compress_settings(log))
    except Exception as ex:  # noqa
        return "raised %r" % (ex,)
    want = {k: v for k, v in expected_settings(log).items() if v}       # steps without settings carry no information
    got = {k: v for k, v in back.items() if v}
    if got != want:
        return "settings log %r came back as %r" % (want, got)
    return None


def roundtrip_results(steps):
    log = build_results(steps)
    try:
        back = sc.decompress_results(sc.compress_results(log))
    except Exception as ex:  # noqa
        return "raised %r" % (ex,)
    want = expected_results(log)
    if back != want:
        return "results log %r came back as %r" % (want, back)
    return None


def _ok(steps):
    if len(steps) != NSTEPS:
        return False
    seen = []
    for (ki, present, p1, v1, p2, v2) in steps:
        if not (0 <= ki < len(KEYS)) or ki in seen:
            return False
        seen.append(ki)
        if not (-4 <= v1 <= 4 and -4 <= v2 <= 4):
            return False
    if MODE == "canonical":
        # steps 1.0, 2.0, ... in order, every step present with the same constants: the only shape the format can hold
        for i, (ki, present, p1, v1, p2, v2) in enumerate(steps):
            if KEYS[ki] != float(i + 1) or not present or not p1 or not p2:
                return False
    if MODE == "present":
        for (ki, present, p1, v1, p2, v2) in steps:
            if not present:
                return False
    if MODE == "present-canonical-keys":
        for i, (ki, present, p1, v1, p2, v2) in enumerate(steps):
            if KEYS[ki] != float(i + 1) or not present:
                return False
    return True


def _settings(steps: List[Tuple[int, bool, bool, int, bool, int]]) -> bool:
    """
    pre: _ok(steps)
    post: _
    """
    return roundtrip_settings(steps) is None


def _results(steps: List[Tuple[int, bool, bool, int, bool, int]]) -> bool:
    """
    pre: _ok(steps)
    post: _
    """
    return roundtrip_results(steps) is None


def _settings_twin(steps: List[Tuple[int, bool, bool, int, bool, int]]) -> bool:
    """
    pre: _ok(steps)
    post: not _
    """
    return roundtrip_settings(steps) is None
