"""CrossHair harness for C14 (agent registry).  The real Model methods are executed; op codes, ids
and the stubbed random pick are symbolic ints.  Environment variables select the sub-space so that
one OS process handles one slice."""
import os
from typing import List, Tuple

from BPTK_Py import Model, Agent, DataCollector

LEN = int(os.environ.get("C14_LEN", "3"))
FIRST = int(os.environ.get("C14_FIRST", "-1"))
EXTRA = int(os.environ.get("C14_EXTRA", "-1"))
FPAR = int(os.environ.get("C14_FPAR", "-1"))          # parity of the first operation's argument (-1: any); splits slow slices
NOPS = 8
MAXID = 4
TYPES = ["A", "B"]
STATES = ["active", "idle"]


class _A(Agent):
    def initialize(self):
        self.agent_type = "A"
        self.state = "active"
        if getattr(self.model, "spawn", False):
            # an agent that brings a companion: it creates another agent while it is itself being created
            self.model.spawn = False
            self.model.create_agent("B", None)


class _B(Agent):
    def initialize(self):
        self.agent_type = "B"
        self.state = "active"


def new_model():
    m = Model(starttime=0, stoptime=1, dt=1, data_collector=DataCollector())
    m.register_agent_factory("A", lambda agent_id, model, properties: _A(agent_id, model, properties, "A"))
    m.register_agent_factory("B", lambda agent_id, model, properties: _B(agent_id, model, properties, "B"))
    return m


class Ref(object):
    """reference registry: list of [id, type, state] in creation order + every id ever issued"""

    def __init__(self):
        self.live = []
        self.issued = []

    def lookup(self, i):
        for a in self.live:
            if a[0] == i:
                return a
        return None


def apply_op(m, ref, op, arg, rnd):
    """applies one operation to the real model and to the reference; returns an error string or None"""
    if op == 0 or op == 1:
        ty = TYPES[op]
        a = m.create_agent(ty, None)
        if a.id in ref.issued:
            return "id %d reused" % a.id
        if ref.issued and a.id <= max(ref.issued):
            return "id %d not fresh" % a.id
        ref.issued.append(a.id)
        ref.live.append([a.id, ty, "active"])
    elif op == 2:
        m.delete_agent(arg)
        ref.live = [a for a in ref.live if a[0] != arg]
    elif op == 3:
        ag = m.agent(arg)
        r = ref.lookup(arg)
        if (ag is None) != (r is None):
            return "agent(%d) presence differs" % arg
        if ag is not None:
            ag.state = "idle" if ag.state == "active" else "active"
            r[2] = "idle" if r[2] == "active" else "active"
    elif op == 4:
        before = m.next_agent_id
        only_a = (arg % 2 == 1)              # odd argument: the new configuration names ONE type only (two A, no B)
        if only_a:
            m.configure_agents([{"name": "A", "count": 2}])
        else:
            m.configure_agents([{"name": "A", "count": 1}, {"name": "B", "count": 1}])
        ref.live = []
        ids = [a.id for a in m.agents]
        for i in ids:
            if i in ref.issued or i < before:
                return "configure_agents reused id %d" % i
            ref.issued.append(i)
        if len(ids) == 2:
            ref.live = [[ids[0], "A", "active"], [ids[1], "A" if only_a else "B", "active"]]
        else:
            return "configure_agents created %d agents" % len(ids)
    elif op == 5:
        m.reset()
        ref.live = []
    elif op == 6:
        m.delete_agents([arg, arg + 1])
        ref.live = [a for a in ref.live if a[0] not in (arg, arg + 1)]
    elif op == 7:
        # nested creation: an A whose initialize() creates a B; both get fresh, distinct ids (the inner one is registered first)
        m.spawn = True
        a = m.create_agent("A", None)
        m.spawn = False
        inner = m.agents[-2] if len(m.agents) >= 2 else None
        if inner is None or inner.agent_type != "B":
            return "nested creation: companion not registered"
        for x in (a, inner):
            if x.id in ref.issued:
                return "id %d reused (nested creation)" % x.id
            if ref.issued and x.id <= max(ref.issued):
                return "id %d not fresh (nested creation)" % x.id
        if a.id == inner.id:
            return "nested creation: both agents have id %d" % a.id
        ref.issued.append(a.id)
        ref.issued.append(inner.id)
        ref.live.append([inner.id, "B", "active"])
        ref.live.append([a.id, "A", "active"])
    return None


def check_queries(m, ref, rnd):
    ids = [a[0] for a in ref.live]
    if len(set(ids)) != len(ids):
        return "reference ids not unique"
    if [a.id for a in m.agents] != ids:
        return "agent list %r != %r" % ([a.id for a in m.agents], ids)
    for i in range(0, MAXID + 4):
        ag = m.agent(i)
        r = ref.lookup(i)
        if r is None:
            if ag is not None:
                return "agent(%d) returned an agent for a dead id" % i
        else:
            if ag is None or ag.id != i or ag.agent_type != r[1] or ag.state != r[2]:
                return "agent(%d) wrong" % i
    for ty in TYPES:
        want = [a[0] for a in ref.live if a[1] == ty]
        if list(m.agent_ids(ty)) != want:
            return "agent_ids(%s) = %r, expected %r" % (ty, list(m.agent_ids(ty)), want)
        if m.agent_count(ty) != len(want):
            return "agent_count(%s)" % ty
        for st in STATES:
            n = len([a for a in ref.live if a[1] == ty and a[2] == st])
            got = m.agent_count_per_state(ty, st)
            if got != n:
                return "agent_count_per_state(%s,%s) = %r, expected %d" % (ty, st, got, n)
            first = [a for a in ref.live if a[1] == ty and a[2] == st]
            na = m.next_agent(ty, st)
            if first:
                if na is None or na.id != first[0][0]:
                    return "next_agent(%s,%s)" % (ty, st)
            elif na is not None:
                return "next_agent(%s,%s) should be None" % (ty, st)
        if want:
            old = Model.get_random_integer
            Model.get_random_integer = staticmethod(lambda lo, hi: lo + (rnd % (hi - lo + 1)))
            try:
                picked = m.random_agents(ty, 2)
            finally:
                Model.get_random_integer = old
            for pid in picked:
                if pid not in want:
                    return "random_agents(%s) returned %r which is not a live %s" % (ty, pid, ty)
            if len(picked) != min(2, len(want)):
                return "random_agents(%s) length" % ty
    return None


def run_history(ops, rnd=0):
    """None if the registry stayed consistent, else a description (exceptions count as failures)"""
    m = new_model()
    ref = Ref()
    step = 0
    try:
        for op, arg in ops:
            e = apply_op(m, ref, op, arg, rnd)
            if e:
                return "after op %d %r: %s" % (step, (op, arg), e)
            e = check_queries(m, ref, rnd)
            if e:
                return "after op %d %r: %s" % (step, (op, arg), e)
            step += 1
    except Exception as ex:  # noqa: CrossHair steers with BaseException subclasses
        return "op %d %r raised %r" % (step, ops[step] if step < len(ops) else None, ex)
    return None


def _history(ops: List[Tuple[int, int]], rnd: int) -> bool:
    """
    pre: len(ops) == LEN
    pre: all(0 <= o[0] < NOPS and 0 <= o[1] <= MAXID for o in ops)
    pre: FIRST < 0 or ops[0][0] == FIRST
    pre: FPAR < 0 or ops[0][1] % 2 == FPAR
    pre: 0 <= rnd <= 3
    post: _
    """
    return run_history(ops, rnd) is None


def _history_twin(ops: List[Tuple[int, int]], rnd: int) -> bool:
    """
    reachability witness: the same preconditions must be satisfiable and the body must terminate
    pre: len(ops) == LEN
    pre: all(0 <= o[0] < NOPS and 0 <= o[1] <= MAXID for o in ops)
    pre: FIRST < 0 or ops[0][0] == FIRST
    pre: 0 <= rnd <= 3
    post: not _
    """
    return run_history(ops, rnd) is None


# ---------------------------------------------------------------- inductive step

def build_state(kinds, gaps, extra):
    """arbitrary registry satisfying the representation invariant, materialised through the public API:
    kinds[i] in 0..3 = (type, state) of live agent i; gaps[i] in 0..1 dead ids before it; extra dead ids after"""
    m = new_model()
    ref = Ref()
    for k, g in zip(kinds, gaps):
        for _ in range(g):
            a = m.create_agent("A", None)
            ref.issued.append(a.id)
            m.delete_agent(a.id)
        ty = TYPES[k // 2]
        a = m.create_agent(ty, None)
        ref.issued.append(a.id)
        st = STATES[k % 2]
        a.state = st
        ref.live.append([a.id, ty, st])
    for _ in range(extra):
        a = m.create_agent("B", None)
        ref.issued.append(a.id)
        m.delete_agent(a.id)
    return m, ref


def run_step(kinds, gaps, extra, op, arg, rnd):
    try:
        m, ref = build_state(kinds, gaps, extra)
        e = check_queries(m, ref, rnd)
        if e:
            return "pre-state: %s" % e
        e = apply_op(m, ref, op, arg, rnd)
        if e:
            return e
        return check_queries(m, ref, rnd)
    except Exception as ex:  # noqa
        return "raised %r" % (ex,)


def _inductive(kinds: List[int], gaps: List[int], extra: int, op: int, arg: int, rnd: int) -> bool:
    """
    pre: len(kinds) == LEN and len(gaps) == LEN
    pre: all(0 <= k <= 3 for k in kinds) and all(0 <= g <= 1 for g in gaps)
    pre: 0 <= extra <= 1 and 0 <= op < NOPS and 0 <= arg <= 2 * LEN + 2 and 0 <= rnd <= 3
    pre: FIRST < 0 or op == FIRST
    pre: EXTRA < 0 or extra == EXTRA
    post: _
    """
    return run_step(kinds, gaps, extra, op, arg, rnd) is None
