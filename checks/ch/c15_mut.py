"""canary for C15: a decorator that accepts any token having the configured token as a prefix"""
from functools import wraps as _wraps
import BPTK_Py.server.bptkServer as _srv


def _bad(f):
    @_wraps(f)
    def decorated(self, *args, **kwargs):
        if self._bearer_token is not None:
            token = None
            if "Authorization" in _srv.request.headers:
                token = _srv.request.headers["Authorization"].split(" ")[1]
            if token is None:
                return _srv.make_response("missing", 401)
            if not token.startswith(self._bearer_token):
                return _srv.make_response("wrong", 401)
        return f(self, *args, **kwargs)
    return decorated


_srv.BptkServer.token_required = staticmethod(_bad)
import importlib as _il
import checks.ch.c15_h as _h
_il.reload(_h)
HMAX, TMAX = _h.HMAX, _h.TMAX
attempt, presents_exactly = _h.attempt, _h.presents_exactly


def _served_only_with_token(present: bool, header: str, token: str) -> bool:
    """
    pre: len(header) <= HMAX and len(token) <= TMAX
    post: _
    """
    served, status, raised = attempt(present, header, token)
    if served:
        return presents_exactly(present, header, token)
    return raised or (status is not None and status >= 400)
