"""canary for C11: SimultaneousScheduler.run_step with positional receiver lookup (pre-fix behaviour)"""
from checks.ch import c11_h as _h
from BPTK_Py import SimultaneousScheduler as _S
import inspect as _inspect
import re as _re
import textwrap as _tw

_src = _tw.dedent(_inspect.getsource(_S.run_step))
_lines = _src.split("\n")
_i = [i for i, l in enumerate(_lines) if l.strip() == "if event:"][0]
_j = [i for i, l in enumerate(_lines) if l.strip().startswith("# give the model a chance")][0]
_ind = _lines[_i][:len(_lines[_i]) - len(_lines[_i].lstrip())]
_src = "\n".join(_lines[:_i] + [_ind + "if event:", _ind + "    model.agents[event.receiver_id].receive_event(event)", ""] + _lines[_j:])
_ns = dict(_inspect.getmodule(_S).__dict__)
exec(_src, _ns)
_S.run_step = _ns["run_step"]
_pre, _mk = _h._pre, _h._mk


def _routing(h0: int, a0: int, h1: int, a1: int, h2: int, a2: int, s0: int, r0: int, d0: int,
             s1: int, r1: int, d1: int, s2: int, r2: int, d2: int, w0: int, w1: int, w2: int) -> bool:
    """
    pre: _pre(h0, a0, h1, a1, h2, a2, s0, r0, d0, s1, r1, d1, s2, r2, d2, w0, w1, w2)
    post: _
    """
    hist, sends = _mk(h0, a0, h1, a1, h2, a2, s0, r0, d0, s1, r1, d1, s2, r2, d2, w0, w1, w2)
    return _h.run_script(hist, sends) is None
