"""canary for C11: SimultaneousScheduler.run_step with positional receiver lookup (pre-fix behaviour)"""
from typing import List, Tuple
from checks.ch import c11_h as _h
from BPTK_Py import SimultaneousScheduler as _S
import inspect as _inspect
import re as _re
import textwrap as _tw

_src = _tw.dedent(_inspect.getsource(_S.run_step))
_a = _src.index("            if event:")
_b = _src.index("        # give the model a chance")
_src = _src[:_a] + "            if event:\n                model.agents[event.receiver_id].receive_event(event)\n\n" + _src[_b:]
_ns = dict(_inspect.getmodule(_S).__dict__)
exec(_src, _ns)
_S.run_step = _ns["run_step"]
_valid = _h._valid


def _routing(hist: List[Tuple[int, int]], sends: List[Tuple[int, int, int]]) -> bool:
    """
    pre: _valid(hist, sends)
    post: _
    """
    return _h.run_script(hist, sends) is None
