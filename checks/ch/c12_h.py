"""CrossHair harness for C12 (ABM run executes every step once, in order, for every agent).
Real SimultaneousScheduler.run / run_step, Model.run / run_step; start, stop, collect_data and the population
size are symbolic; dt comes from the environment (one OS process per dt)."""
import os
from typing import List

from BPTK_Py import Model, Agent, DataCollector, SimultaneousScheduler, Event

DT = float(os.environ.get("C12_DT", "1"))
START = int(os.environ.get("C12_START", "-1"))
COLLECT = int(os.environ.get("C12_COLLECT", "-1"))
MAXSTOP = int(os.environ.get("C12_MAXSTOP", "3"))


def _conc(x, lo, hi):
    """a concrete copy of a small symbolic int (the engine forks on the comparisons); keeps floats and symbolic ints apart"""
    for v in range(lo, hi + 1):
        if x == v:
            return v
    return lo


class _Ag(Agent):
    def initialize(self):
        self.state = "active"
        self.register_event_handler(["active"], "ping", self._ping)

    def _ping(self, event):
        self.model.log.append(("ping", self.id, self.model.scheduler.current_time))

    def handle_events(self, time, sim_round, step):
        self.model.log.append(("handle", self.id, time))
        Agent.handle_events(self, time, sim_round, step)

    def act(self, time, round_no, step_no):
        self.model.log.append(("act", self.id, time))
        # pending events for the next step: one nobody handles, then one the agent handles
        self.model.enqueue_event(Event("noise", self.id, self.id))
        self.model.enqueue_event(Event("ping", self.id, self.id))
        plan = getattr(self.model, "deletion", None)
        if plan is not None and plan[0] == self.id and plan[2] == time:
            self.model.delete_agent(plan[1])


class _DC(DataCollector):
    def collect_agent_statistics(self, time, agents):
        self.model_log.append(("collect", tuple(a.id for a in agents), time))
        DataCollector.collect_agent_statistics(self, time, agents)


class _M(Model):
    def begin_round(self, time, sim_round, step):
        self.log.append(("begin", sim_round, step, time))

    def end_round(self, time, sim_round, step):
        self.log.append(("end", sim_round, step, time))


def new_model(start, stop, npop):
    dc = _DC()
    m = _M(scheduler=SimultaneousScheduler(), data_collector=dc)
    m.log = []
    dc.model_log = m.log
    m.register_agent_factory("A", lambda agent_id, model, properties: _Ag(agent_id, model, properties, "A"))
    m.register_agent_factory("B", lambda agent_id, model, properties: _Ag(agent_id, model, properties, "B"))
    m.run_specs(start, stop, DT)
    for i in range(npop):
        m.create_agent("AB"[i % 2], None)           # two agent types, interleaved in creation order
    return m


def expected_log(start, stop, collect, ids):
    out = []
    steps = round(1 / DT)
    first = True
    for r in range(start, stop + 1):
        for k in range(steps):
            t = r + k * DT
            out.append(("begin", r, k, t))
            for i in ids:
                out.append(("handle", i, t))
                if not first:
                    out.append(("ping", i, t))        # the event the agent sent itself in the previous step
                out.append(("act", i, t))
            out.append(("end", r, k, t))
            if collect or (r == stop and k == steps - 1):
                out.append(("collect", tuple(ids), t))
            first = False
    return out


def run_whole(start, stop, collect, npop):
    try:
        m = new_model(start, stop, npop)
        ids = [a.id for a in m.agents]
        m.run(show_progress_widget=False, collect_data=collect)
    except Exception as ex:  # noqa
        return "run raised %r" % (ex,)
    want = expected_log(start, stop, collect, ids)
    if m.log != want:
        for i in range(max(len(want), len(m.log))):
            a = m.log[i] if i < len(m.log) else None
            b = want[i] if i < len(want) else None
            if a != b:
                return "call %d is %r, expected %r (%d calls, expected %d)" % (i, a, b, len(m.log), len(want))
    keys = sorted(m.statistics().keys())
    wk = sorted(set(t for (k, _, t) in [(x[0], x[1], x[-1]) for x in want] if k == "collect"))
    if keys != wk:
        return "statistics recorded for times %r, expected %r" % (keys, wk)
    return None


def run_single_steps(stop, nsteps, npop, collect=None):
    """externally driven: Model.run_step(step) for step = 0..nsteps-1 (round 0); collect None = the default (on).
    With data collection switched off a single step records statistics only if it is the final step of the run
    (round 0 is the final round only for stop = 0, which is outside)."""
    try:
        m = new_model(0, stop, npop)
        ids = [a.id for a in m.agents]
        for s in range(nsteps):
            if collect is None:
                m.run_step(s)
            else:
                m.run_step(s, collect_data=collect)
    except Exception as ex:  # noqa
        return "run_step raised %r" % (ex,)
    want = []
    for s in range(nsteps):
        t = 0 + s * DT
        want.append(("begin", 0, s, t))
        for i in ids:
            want.append(("handle", i, t))
            if s > 0:
                want.append(("ping", i, t))
            want.append(("act", i, t))
        want.append(("end", 0, s, t))
        if collect is None or collect:
            want.append(("collect", tuple(ids), t))
    if m.log != want:
        return "single-step log (collect_data=%r) differs: %r vs %r" % (collect, m.log[:8], want[:8])
    return None


def _whole(start: int, stop: int, collect: bool, npop: int) -> bool:
    """
    pre: 0 <= start <= 3 and 1 <= stop <= MAXSTOP and 0 <= npop <= 3
    pre: (START < 0 or start == START) and (COLLECT < 0 or collect == (COLLECT == 1))
    post: _
    """
    start, stop, npop = _conc(start, 0, 3), _conc(stop, 1, 3), _conc(npop, 0, 3)
    collect = True if collect else False
    return run_whole(start, stop, collect, npop) is None


def _whole_twin(start: int, stop: int, collect: bool, npop: int) -> bool:
    """
    pre: 0 <= start <= 3 and 1 <= stop <= 3 and 0 <= npop <= 3
    post: not _
    """
    return run_whole(start, stop, collect, npop) is None


def _single(stop: int, nsteps: int, npop: int, collect: int) -> bool:
    """
    pre: 1 <= stop <= 3 and 0 <= nsteps <= 4 and 0 <= npop <= 3 and 0 <= collect <= 2
    post: _
    """
    stop, nsteps, npop, collect = _conc(stop, 1, 3), _conc(nsteps, 0, 4), _conc(npop, 0, 3), _conc(collect, 0, 2)
    return run_single_steps(stop, nsteps, npop, [None, True, False][collect]) is None


def run_with_deletion(stop, npop, deleter, victim, when):
    """agent `deleter` deletes agent `victim` (itself or an agent created before it) from inside act() at time `when`.
    Every agent that is live when its turn comes handles its events and acts exactly once per step; the victim takes no
    part from the next step on."""
    try:
        m = new_model(0, stop, npop)
        ids = [a.id for a in m.agents]
        m.deletion = (ids[deleter], ids[victim], when)
        m.run(show_progress_widget=False, collect_data=True)
    except Exception as ex:  # noqa
        return "run raised %r" % (ex,)
    steps = round(1 / DT)
    want = []
    live = list(ids)
    first = True
    for r in range(0, stop + 1):
        for k in range(steps):
            t = r + k * DT
            want.append(("begin", r, k, t))
            turn = list(live)
            for i in turn:
                want.append(("handle", i, t))
                if not first:
                    want.append(("ping", i, t))
                want.append(("act", i, t))
                if i == ids[deleter] and t == when and ids[victim] in live:
                    live.remove(ids[victim])
            want.append(("end", r, k, t))
            want.append(("collect", tuple(live), t))
            first = False
    if m.log != want:
        for i in range(max(len(want), len(m.log))):
            a = m.log[i] if i < len(m.log) else None
            b = want[i] if i < len(want) else None
            if a != b:
                return "call %d is %r, expected %r" % (i, a, b)
    return None


def _deletion(stop: int, npop: int, deleter: int, victim: int, whenstep: int) -> bool:
    """
    pre: 1 <= stop <= 2 and 2 <= npop <= 4 and 0 <= victim <= deleter < npop and 0 <= whenstep <= 2
    post: _
    """
    stop, npop, deleter, victim, whenstep = _conc(stop, 1, 2), _conc(npop, 2, 4), _conc(deleter, 0, 3), _conc(victim, 0, 3), _conc(whenstep, 0, 2)
    return run_with_deletion(stop, npop, deleter, victim, whenstep * DT) is None
