"""canary for C14: the same harness with Model.agent_count_per_state replaced by the positional-indexing
variant (in this process only)"""
from checks.ch.c14_h import *  # noqa
from checks.ch import c14_h as _h
from BPTK_Py import Model as _Model
from typing import List, Tuple


def _bad(self, agent_type, state):
    n = 0
    for agent_id in self.agent_type_map[agent_type]:
        if self.agents[agent_id].state == state:
            n += 1
    return n


_Model.agent_count_per_state = _bad
LEN, FIRST, NOPS, MAXID = _h.LEN, _h.FIRST, _h.NOPS, _h.MAXID


def _history(ops: List[Tuple[int, int]], rnd: int) -> bool:
    """
    pre: len(ops) == LEN
    pre: all(0 <= o[0] < NOPS and 0 <= o[1] <= MAXID for o in ops)
    pre: FIRST < 0 or ops[0][0] == FIRST
    pre: 0 <= rnd <= 3
    post: _
    """
    return _h.run_history(ops, rnd) is None
