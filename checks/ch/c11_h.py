"""CrossHair harness for C11 (event routing).  Real Model.enqueue_event, SimultaneousScheduler.run_step,
Scheduler.handle_delayed_event, Agent.receive_event / handle_events are executed; the history ops, receiver
ids, send steps and delays are symbolic ints (dt = 1)."""
import math
import os
from typing import List, Tuple

from BPTK_Py import Model, Agent, DataCollector, SimultaneousScheduler, Event, DelayedEvent

HLEN = int(os.environ.get("C11_HLEN", "2"))
ELEN = int(os.environ.get("C11_ELEN", "2"))
FIRST = int(os.environ.get("C11_FIRST", "-1"))
SECOND = int(os.environ.get("C11_SECOND", "-1"))
ESTEP = int(os.environ.get("C11_ESTEP", "-1"))
INITIAL = int(os.environ.get("C11_INITIAL", "2"))
SMAX = int(os.environ.get("C11_SMAX", "2"))       # latest send step
DMAX = int(os.environ.get("C11_DMAX", "2"))       # longest delay (steps)
WMAX = int(os.environ.get("C11_WMAX", "0"))       # population changes may happen before steps 0..WMAX
MAXID = 3
NSTEPS = 5


class _Rec(Agent):
    def initialize(self):
        self.agent_type = "A"
        self.state = "active"
        for n in ("e0", "e1", "e2", "e3"):
            self.register_event_handler(["active"], n, self._handle)

    def _handle(self, event):
        self.model.log.append((self.id, event.name, self.model.now))


class _M(Model):
    def begin_round(self, time, sim_round, step):
        self.now = time


def new_model(dt=1):
    m = _M(starttime=0, stoptime=NSTEPS, dt=dt, scheduler=SimultaneousScheduler(), data_collector=DataCollector())
    m.register_agent_factory("A", lambda agent_id, model, properties: _Rec(agent_id, model, properties, "A"))
    for _ in range(INITIAL):         # an initial population, so that short histories can already replace an agent
        m.create_agent("A", None)
    m.run_specs(0, NSTEPS, dt)       # keeps dt an int (Model.__init__ turns it into a float; symbolic int-float
    m.log = []                       # mixing makes the engine's z3 queries time out)
    m.now = None
    return m


def run_script(hist, sends):
    """hist: [(op, arg)] op 0 create, 1 delete(arg), 2 configure(2 agents)
    sends: [(step, receiver, delay_steps)]  delay_steps < 0 means a plain Event
    returns None or a description of the first discrepancy"""
    m = new_model()
    hist = [(h[0], h[1], (h[2] if len(h) > 2 else 0)) for h in hist]

    # the reference owns the id model: ids come from a monotone counter and are never reused, also not by a reconfiguration
    ref = {"live": list(range(INITIAL)), "next": INITIAL}

    def apply_ops(step):
        for op, arg, when in hist:
            if when == step:
                if op == 0:
                    m.create_agent("A", None)
                    ref["live"] = ref["live"] + [ref["next"]]
                    ref["next"] += 1
                elif op == 1:
                    m.delete_agent(arg)
                    ref["live"] = [i for i in ref["live"] if i != arg]
                else:
                    m.configure_agents([{"name": "A", "count": 2}])
                    ref["live"] = [ref["next"], ref["next"] + 1]
                    ref["next"] += 2
    live_at = []                                # live ids when step s distributes its events (concrete ints)
    crashed = None
    for s in range(NSTEPS):
        try:
            apply_ops(s)                        # population changes happen between steps, before the step's sends
        except Exception as ex:  # noqa
            return "history raised %r" % (ex,)
        got_ids = [a.id for a in m.agents]
        if got_ids != ref["live"]:
            return "population ids before step %d are %r, expected %r (ids are never reused)" % (s, got_ids, ref["live"])
        live_at.append(list(ref["live"]))
        for idx, (st, rid, dl) in enumerate(sends):
            if st == s:
                name = "e%d" % idx
                if dl < 0:
                    m.enqueue_event(Event(name, 0, rid))
                else:
                    m.enqueue_event(DelayedEvent(name, 0, rid, dl))
        try:
            m.scheduler.run_step(m, s, 0)
        except Exception as ex:  # noqa
            crashed = "step %d raised %r" % (s, ex)
            break
    # no dictionaries keyed by symbolic values here: hashing would make CrossHair realise them
    while len(live_at) < NSTEPS:
        live_at.append(list(ref["live"]))
    ever = []
    for l in live_at:
        for i in l:
            if i not in ever:
                ever.append(i)
    live = ever
    for (aid, name, t) in m.log:
        if aid not in ever:
            return "a non-existing agent %r handled %s" % (aid, name)
    for aid in ever:
        lst = [(t, name) for (a, name, t) in m.log if a == aid]
        want = []
        for idx, (st, rid, dl) in enumerate(sends):
            if rid == aid:
                when = st + (dl if dl > 0 else 0)
                for s_ in range(NSTEPS):        # keeps `when` symbolic, the liveness table concrete
                    if when == s_ and aid in live_at[s_]:
                        want.append((when, idx, "e%d" % idx))
        for (t, name) in lst:
            ok = False
            for (w, i, n) in want:
                if n == name and w == t:
                    ok = True
            if not ok:
                return "agent %d handled %r which was not addressed to it at that time (live ids %r)" % (aid, (t, name), live)
        names = [name for (t, name) in lst]
        for x in range(len(names)):
            for y in range(x + 1, len(names)):
                if names[x] == names[y]:
                    return "agent %d handled an event twice: %r" % (aid, lst)
        if crashed is None:
            for (w, i, n) in want:
                if n not in names:
                    return "agent %d never handled %s due at step %d: handled %r, expected %r (live ids %r)" % (
                        aid, n, w, lst, [(a_, c_) for (a_, b_, c_) in want], live)
        # order: events sent in the same step (and arriving in the same step) keep their sending order
        for x in range(len(lst)):
            for y in range(x + 1, len(lst)):
                (tx, nx), (ty, ny) = lst[x], lst[y]
                ix, iy = int(nx[1:]), int(ny[1:])
                if tx > ty:
                    return "agent %d handled %r before %r (time order)" % (aid, lst[x], lst[y])
                if tx == ty and sends[ix][0] == sends[iy][0] and ix > iy:
                    return "agent %d handled %s before %s although both were sent in step %d in the opposite order" % (
                        aid, nx, ny, sends[ix][0])
    if crashed is not None:
        return "crash: " + crashed
    return None


CONC = int(os.environ.get("C11_CONC", "1"))


def _conc(x, lo, hi):
    """a concrete copy of a small symbolic int (the engine forks on the comparisons)"""
    for v in range(lo, hi + 1):
        if x == v:
            return v
    return lo


def _valid(hist, sends):
    return (len(hist) == HLEN and len(sends) == ELEN
            and all(0 <= h[0] <= 2 and 0 <= h[1] <= MAXID for h in hist)
            and all(0 <= s[0] <= 2 and 0 <= s[1] <= MAXID + 1 and -1 <= s[2] <= 2 for s in sends)
            and (FIRST < 0 or (len(hist) > 0 and hist[0][0] == FIRST)))


def _mk(h0, a0, h1, a1, h2, a2, s0, r0, d0, s1, r1, d1, s2, r2, d2, w0=0, w1=0, w2=0):
    hist = [(h0, a0, w0), (h1, a1, w1), (h2, a2, w2)][:HLEN]
    sends = [(s0, r0, d0), (s1, r1, d1), (s2, r2, d2)][:ELEN]
    return hist, sends


def _pre(h0, a0, h1, a1, h2, a2, s0, r0, d0, s1, r1, d1, s2, r2, d2, w0=0, w1=0, w2=0):
    ws = [w0, w1, w2]
    for i in range(3):
        if i < HLEN:
            if not (0 <= ws[i] <= WMAX):
                return False
            if i > 0 and ws[i] < ws[i - 1]:
                return False                     # operations are listed in the order they happen
        elif ws[i] != 0:
            return False
    hs = [(h0, a0), (h1, a1), (h2, a2)]
    ss = [(s0, r0, d0), (s1, r1, d1), (s2, r2, d2)]
    for i in range(3):
        h, a = hs[i]
        if i < HLEN:
            if not (0 <= h <= 2 and 0 <= a <= MAXID):
                return False
        elif h != 0 or a != 0:
            return False
    for i in range(3):
        st, r, d = ss[i]
        if i < ELEN:
            if not (0 <= st <= SMAX and 0 <= r <= MAXID + 1 and -1 <= d <= DMAX):
                return False
        elif st != 0 or r != 0 or d != 0:
            return False
    if FIRST >= 0 and HLEN > 0 and h0 != FIRST:
        return False
    if SECOND >= 0 and HLEN > 1 and h1 != SECOND:
        return False
    if ESTEP >= 0 and ELEN > 0 and s0 != ESTEP:
        return False
    return True


def _routing(h0: int, a0: int, h1: int, a1: int, h2: int, a2: int, s0: int, r0: int, d0: int,
             s1: int, r1: int, d1: int, s2: int, r2: int, d2: int, w0: int, w1: int, w2: int) -> bool:
    """
    pre: _pre(h0, a0, h1, a1, h2, a2, s0, r0, d0, s1, r1, d1, s2, r2, d2, w0, w1, w2)
    post: _
    """
    if CONC:
        h0, h1, h2 = _conc(h0, 0, 2), _conc(h1, 0, 2), _conc(h2, 0, 2)
        w0, w1, w2 = _conc(w0, 0, 2), _conc(w1, 0, 2), _conc(w2, 0, 2)
        s0, s1, s2 = _conc(s0, 0, 2), _conc(s1, 0, 2), _conc(s2, 0, 2)
    hist, sends = _mk(h0, a0, h1, a1, h2, a2, s0, r0, d0, s1, r1, d1, s2, r2, d2, w0, w1, w2)
    return run_script(hist, sends) is None


def _routing_twin(h0: int, a0: int, h1: int, a1: int, h2: int, a2: int, s0: int, r0: int, d0: int,
                  s1: int, r1: int, d1: int, s2: int, r2: int, d2: int) -> bool:
    """
    pre: _pre(h0, a0, h1, a1, h2, a2, s0, r0, d0, s1, r1, d1, s2, r2, d2)
    post: not _
    """
    hist, sends = _mk(h0, a0, h1, a1, h2, a2, s0, r0, d0, s1, r1, d1, s2, r2, d2)
    return run_script(hist, sends) is None
