"""CrossHair harness for C11 (event routing).  Real Model.enqueue_event, SimultaneousScheduler.run_step,
Scheduler.handle_delayed_event, Agent.receive_event / handle_events are executed; the history ops, receiver
ids, send steps and delays are symbolic ints (dt = 1)."""
import math
import os
from typing import List, Tuple

from BPTK_Py import Model, Agent, DataCollector, SimultaneousScheduler, Event, DelayedEvent

HLEN = int(os.environ.get("C11_HLEN", "2"))
ELEN = int(os.environ.get("C11_ELEN", "2"))
FIRST = int(os.environ.get("C11_FIRST", "-1"))
MAXID = 3
NSTEPS = 5


class _Rec(Agent):
    def initialize(self):
        self.agent_type = "A"
        self.state = "active"
        for n in ("e0", "e1", "e2", "e3"):
            self.register_event_handler(["active"], n, self._handle)

    def _handle(self, event):
        self.model.log.append((self.id, event.name, self.model.now))


class _M(Model):
    def begin_round(self, time, sim_round, step):
        self.now = time


def new_model(dt=1):
    m = _M(starttime=0, stoptime=NSTEPS, dt=dt, scheduler=SimultaneousScheduler(), data_collector=DataCollector())
    m.register_agent_factory("A", lambda agent_id, model, properties: _Rec(agent_id, model, properties, "A"))
    m.log = []
    m.now = None
    return m


def run_script(hist, sends):
    """hist: [(op, arg)] op 0 create, 1 delete(arg), 2 configure(2 agents)
    sends: [(step, receiver, delay_steps)]  delay_steps < 0 means a plain Event
    returns None or a description of the first discrepancy"""
    m = new_model()
    try:
        for op, arg in hist:
            if op == 0:
                m.create_agent("A", None)
            elif op == 1:
                m.delete_agent(arg)
            else:
                m.configure_agents([{"name": "A", "count": 2}])
    except Exception as ex:  # noqa
        return "history raised %r" % (ex,)
    live = [a.id for a in m.agents]
    expected = {}            # agent id -> list of (name, time) in handling order
    for idx, (st, rid, dl) in enumerate(sends):
        name = "e%d" % idx
        if rid in live:
            when = st + (dl if dl > 0 else 0)
            if when < NSTEPS:
                expected.setdefault(rid, []).append((when, idx, name))
    crashed = None
    for s in range(NSTEPS):
        for idx, (st, rid, dl) in enumerate(sends):
            if st == s:
                name = "e%d" % idx
                if dl < 0:
                    m.enqueue_event(Event(name, 0, rid))
                else:
                    m.enqueue_event(DelayedEvent(name, 0, rid, dl))
        try:
            m.scheduler.run_step(m, s, 0)
        except Exception as ex:  # noqa
            crashed = "step %d raised %r" % (s, ex)
            break
    got = {}
    for (aid, name, t) in m.log:
        got.setdefault(aid, []).append((t, name))
    sent_at = {"e%d" % i: (s[0], i) for i, s in enumerate(sends)}
    for aid, lst in got.items():
        want = [(w, n) for (w, i, n) in expected.get(aid, [])]
        for item in lst:
            if item not in want:
                return "agent %d handled %r which was not addressed to it at that time (live ids %r)" % (aid, item, live)
        if len(lst) != len(set(lst)):
            return "agent %d handled an event twice: %r" % (aid, lst)
        if crashed is None and sorted(lst) != sorted(want):
            return "agent %d handled %r, expected %r (live ids %r)" % (aid, lst, sorted(want), live)
        # order: events sent in the same step (and arriving in the same step) keep their sending order
        for x in range(len(lst)):
            for y in range(x + 1, len(lst)):
                (tx, nx), (ty, ny) = lst[x], lst[y]
                if tx > ty:
                    return "agent %d handled %r before %r (time order)" % (aid, lst[x], lst[y])
                if tx == ty and sent_at[nx][0] == sent_at[ny][0] and sent_at[nx][1] > sent_at[ny][1]:
                    return "agent %d handled %s before %s although both were sent in step %d in the opposite order" % (
                        aid, nx, ny, sent_at[nx][0])
    if crashed is not None:
        return "crash: " + crashed
    for aid, lst in expected.items():
        if aid not in got:
            return "agent %d never handled %r" % (aid, lst)
    return None


def _valid(hist, sends):
    return (len(hist) == HLEN and len(sends) == ELEN
            and all(0 <= h[0] <= 2 and 0 <= h[1] <= MAXID for h in hist)
            and all(0 <= s[0] <= 2 and 0 <= s[1] <= MAXID + 1 and -1 <= s[2] <= 2 for s in sends)
            and (FIRST < 0 or (len(hist) > 0 and hist[0][0] == FIRST)))


def _routing(hist: List[Tuple[int, int]], sends: List[Tuple[int, int, int]]) -> bool:
    """
    pre: _valid(hist, sends)
    post: _
    """
    return run_script(hist, sends) is None


def _routing_twin(hist: List[Tuple[int, int]], sends: List[Tuple[int, int, int]]) -> bool:
    """
    pre: _valid(hist, sends)
    post: not _
    """
    return run_script(hist, sends) is None
