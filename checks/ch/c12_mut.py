"""canary for C12: a scheduler whose run() loops over range(start, stop) (last round missing)"""
from checks.ch import c12_h as _h
from BPTK_Py import SimultaneousScheduler as _S
import inspect as _inspect
import textwrap as _tw

_src = _tw.dedent(_inspect.getsource(_S.run)).replace("model.stoptime + 1", "model.stoptime")
_ns = dict(_inspect.getmodule(_S).__dict__)
exec(_src, _ns)
_S.run = _ns["run"]


def _whole(start: int, stop: int, collect: bool, npop: int) -> bool:
    """
    pre: 0 <= start <= 1 and 1 <= stop <= 2 and 0 <= npop <= 1
    post: _
    """
    return _h.run_whole(start, stop, collect, npop) is None
