"""C11 part 2: the delay countdown of Scheduler.handle_delayed_event in binary64.

The condition and the update of the countdown are taken from the AST of the real function and
unrolled; cvc5 (QF_FP) decides, for every binary64 `delay` in (0, 8*dt] and every dt of the lattice,
that the number of deferrals equals ceil(delay/dt) taken literally: the ceiling of the exact real
quotient of the two binary64 numbers."""
import ast
import inspect
import textwrap
from concurrent.futures import ThreadPoolExecutor
from fractions import Fraction

from vsym import fp, harness

MAXN = 8
TOL = Fraction(0)


def extract():
    """(test_ast, update_stmt_ast) of the countdown in the real source"""
    from BPTK_Py.modeling.scheduler import Scheduler
    src = textwrap.dedent(inspect.getsource(Scheduler.handle_delayed_event))
    fdef = ast.parse(src).body[0]
    for node in ast.walk(fdef):
        if isinstance(node, ast.If) and "event.delay" in ast.unparse(node.test) and "isinstance" not in ast.unparse(node.test):
            upd = None
            for st in node.body:
                if isinstance(st, (ast.AugAssign, ast.Assign)):
                    tgt = st.target if isinstance(st, ast.AugAssign) else st.targets[0]
                    if ast.unparse(tgt) == "event.delay":
                        upd = st
            if upd is not None:
                return node.test, upd, Scheduler.handle_delayed_event.__globals__
    raise fp.Unsupported("countdown structure of handle_delayed_event not recognised")


def step(ctx, test, upd, d, dt):
    env = {"event.delay": d, "dt": dt}
    c = fp.eval_expr(ctx, test, env)
    if isinstance(upd, ast.AugAssign):
        if not isinstance(upd.op, (ast.Sub, ast.Add)):
            raise fp.Unsupported("augmented assignment %s" % type(upd.op).__name__)
        rhs = fp.eval_expr(ctx, upd.value, env)
        nd = fp.fp_bin("sub" if isinstance(upd.op, ast.Sub) else "add", d, rhs)
    else:
        nd = fp.eval_expr(ctx, upd.value, env)
    return c, nd


def interval(n, dt):
    """doubles x with ceil(x/dt - 1e-9) == n, i.e. (n-1+tol)*dt < x <= (n+tol)*dt (exact reals)"""
    fdt = Fraction(dt)
    lo = (n - 1 + TOL) * fdt
    hi = (n + TOL) * fdt
    a = fp.round_up(lo)
    if Fraction(a) == lo:
        a = fp.next_up(a)
    b = fp.round_down(hi)
    if n == 1:
        a = max(a, 5e-324)
        lo0 = fp.next_up(0.0)
        a = lo0 if lo <= 0 else a
    return a, b


def query(n, dt, mode="late"):
    """mode 'late': still deferring after n deferrals; 'early': released before n deferrals; 'exact': the reachability witness"""
    test, upd, glob = extract()
    ctx = fp.Ctx([glob])
    d = ctx.var("d0")
    a, b = interval(n, dt)
    ctx.asserts.append("(fp.leq %s d0)" % fp.fpconst(a))
    ctx.asserts.append("(fp.leq d0 %s)" % fp.fpconst(b))
    conds = []
    cur = d
    for i in range(n + 1):
        c, nd = step(ctx, test, upd, cur, dt)
        c = ctx.define(fp.lift(c), "c")
        conds.append(c)
        cur = ctx.define(fp.lift(nd), "d")
    exact = fp.b_and(*(conds[:n] + [fp.b_not(conds[n])]))
    if mode == "late":
        goal = fp.b_and(*conds[:n + 1]).s
    elif mode == "early":
        goal = fp.b_not(fp.b_and(*conds[:n])).s
    else:
        goal = exact.s
    return fp.script(ctx, [goal], ["d0"]), (a, b)


def deferrals_real(delay, dt):
    """the real Scheduler on a real DelayedEvent"""
    from BPTK_Py.modeling.scheduler import Scheduler
    from BPTK_Py import DelayedEvent
    s = Scheduler()
    ev = DelayedEvent("e", 0, 0, delay)
    n = 0
    while n < 50:
        if s.handle_delayed_event(ev, dt) is None:
            n += 1
        else:
            break
    return n


def expected(delay, dt):
    """ceil(delay/dt) of the two binary64 numbers taken literally"""
    import math
    q = Fraction(delay) / Fraction(dt)
    return max(0, math.ceil(q - TOL))


def expected_decimal(delay, dt):
    """ceil(delay/dt) of the decimal numbers the user wrote (shortest decimal representations of the two doubles)"""
    import math
    from decimal import Decimal
    q = Fraction(Decimal(repr(float(delay)))) / Fraction(Decimal(repr(float(dt))))
    return max(0, math.ceil(q))


def acceptable(delay, dt):
    """the statement says ceil(delay/dt); where the literal binary quotient and the decimal one the user wrote
    disagree (delay = n*dt in decimals, e.g. 0.05/0.01 or 1.5/0.3) either reading is accepted"""
    return {expected(delay, dt), expected_decimal(delay, dt)}


def solve_excluding(smt, tmo, dt, rounds=16):
    """cvc5 on the query; models at which the real scheduler's count is an accepted reading (points where the two
    readings of ceil differ) are excluded one by one and the query repeated -> (verdict, out, excluded)"""
    excluded = []
    for _ in range(rounds):
        r, out = fp.solve(smt, tmo)
        if r != "sat":
            return r, out, excluded
        vals = fp.model_values(out, ["d0"])
        if "d0" not in vals:
            return r, out, excluded
        d = vals["d0"]
        if deferrals_real(d, dt) in acceptable(d, dt) and expected(d, dt) != expected_decimal(d, dt):
            excluded.append(d)
            smt = smt.replace("(check-sat)", "(assert (not (fp.eq d0 %s)))\n(check-sat)" % fp.fpconst(d), 1)
            continue
        return r, out, excluded
    return "unknown", "more than %d ambiguous points excluded" % rounds, excluded


def replay(case):
    delay, dt = float(case["delay"]), float(case["dt"])
    got, want = deferrals_real(delay, dt), acceptable(delay, dt)
    return got not in want, "DelayedEvent(delay=%r) with dt=%r is deferred %d times, ceil(delay/dt) = %s" % (delay, dt, got, sorted(want))


def run_part(rep, tier):
    from BPTK_Py.modeling.scheduler import Scheduler
    rep.encoded(Scheduler.handle_delayed_event)
    dts = [1.0, 0.5, 0.25, 0.2, 0.1] if tier == "quick" else [1.0, 0.5, 0.25, 0.2, 0.1, 0.05, 0.125, 0.01, 0.3]
    tmo = 60 if tier == "quick" else 300
    jobs = []
    try:
        for dt in dts:
            for n in range(1, MAXN + 1):
                for mode in ("late", "early"):
                    smt, iv = query(n, dt, mode)
                    jobs.append((dt, n, smt, iv, "main"))
        smt, iv = query(3, 0.1, "exact")
        jobs.append((0.1, 3, smt, iv, "witness"))
    except fp.Unsupported as e:
        rep.inconcl("delay countdown could not be encoded from the source: %s" % e)
        return {"queries": 0}
    with ThreadPoolExecutor(max_workers=harness.nprocs()) as ex:
        res = list(ex.map(lambda j: solve_excluding(j[2], tmo, j[0]) if j[4] == "main" else fp.solve(j[2], tmo) + ([],), jobs))
    samples = []
    unsat = 0
    ambiguous = []
    # the delays a user writes: n*dt in decimals (one double each) - the points where the two readings may differ
    from decimal import Decimal
    for dt in dts:
        for n in range(1, MAXN + 1):
            d = float(n * Decimal(repr(dt)))
            if deferrals_real(d, dt) not in acceptable(d, dt):
                g_, w_ = deferrals_real(d, dt), expected_decimal(d, dt)
                rep.candidate("delay-fp:dt=%g:%s" % (dt, "late-by-1" if g_ == w_ + 1 else ("early-by-1" if g_ == w_ - 1 else "off-by-%d" % (g_ - w_))),
                              {"kind": "fp", "delay": d, "dt": dt}, "delay=%r dt=%r: float countdown defers %d times, expected %d" % (d, dt, g_, w_))
    for (dt, n, smt, iv, kind), (r, out, excl) in zip(jobs, res):
        ambiguous += [(dt, x) for x in excl]
        if kind == "witness":
            if r != "sat":
                rep.inconcl("FP reachability witness (dt=0.1, n=3) is %s" % r)
            continue
        if r == "unsat":
            unsat += 1
        elif r == "sat":
            vals = fp.model_values(out, ["d0"])
            if "d0" not in vals:
                rep.inconcl("FP counterexample for dt=%s n=%d could not be parsed" % (dt, n))
                continue
            g_, w_ = deferrals_real(vals["d0"], dt), expected(vals["d0"], dt)
            if g_ in acceptable(vals["d0"], dt):
                rep.inconcl("FP model for dt=%s n=%d (delay=%r) does not violate on the real scheduler" % (dt, n, vals["d0"]))
                continue
            rep.candidate("delay-fp:dt=%g:%s" % (dt, "late-by-1" if g_ == w_ + 1 else ("early-by-1" if g_ == w_ - 1 else "off-by-%d" % (g_ - w_))),
                          {"kind": "fp", "delay": vals["d0"], "dt": dt},
                          "delay=%r dt=%r: float countdown defers %d times, expected %d" % (
                              vals["d0"], dt, deferrals_real(vals["d0"], dt), expected(vals["d0"], dt)))
        else:
            rep.inconcl("FP query dt=%s n=%d: %s" % (dt, n, r))
        if len(samples) < 3:
            samples.append({"fp_query": "dt=%s deferrals=%d delay in [%r, %r]" % (dt, n, iv[0], iv[1]), "verdict": r})
    # canary: the bare countdown (delay > 0, delay -= dt) must be refuted for dt = 0.1
    rep.canary("bare-float-countdown(dt=0.1)", _canary())
    return {"queries": len(jobs), "unsat": unsat, "samples": samples, "solver": {k: v for k, v in fp.STATS.items() if k != "samples"},
            "smt_sample": fp.STATS["samples"][:1], "dts": dts, "max_deferrals": MAXN,
            "ambiguous_points_excluded": [{"dt": a, "delay": b, "literal_ceil": expected(b, a), "decimal_ceil": expected_decimal(b, a)} for a, b in ambiguous[:20]]}


def _canary():
    test = ast.parse("event.delay > 0", mode="eval").body
    upd = ast.parse("event.delay -= dt").body[0]
    for n in (3, 7):
        ctx = fp.Ctx([{}])
        d = ctx.var("d0")
        a, b = interval(n, 0.1)
        ctx.asserts.append("(fp.leq %s d0)" % fp.fpconst(a))
        ctx.asserts.append("(fp.leq d0 %s)" % fp.fpconst(b))
        conds, cur = [], d
        for i in range(n + 1):
            c, nd = step(ctx, test, upd, cur, 0.1)
            conds.append(ctx.define(fp.lift(c), "c"))
            cur = ctx.define(fp.lift(nd), "d")
        exact = fp.b_and(*(conds[:n] + [fp.b_not(conds[n])]))
        r, out = fp.solve(fp.script(ctx, [fp.b_not(exact).s], ["d0"]), 60)
        if r == "sat":
            return True
    return False
