"""C11 part 2: the delay countdown of Scheduler.handle_delayed_event in binary64.

The condition and the update of the countdown are taken from the AST of the real function and
unrolled; cvc5 (QF_FP) decides, for every binary64 `delay` in (0, 8*dt] and every dt of the lattice,
that the number of deferrals equals ceil(delay/dt) taken literally: the ceiling of the exact real
quotient of the two binary64 numbers."""
import ast
import inspect
import textwrap
from concurrent.futures import ThreadPoolExecutor
from fractions import Fraction

from vsym import fp, harness

MAXN = 8
TOL = Fraction(0)


def extract():
    """(test_ast, update_stmt_ast) of the countdown in the real source"""
    from BPTK_Py.modeling.scheduler import Scheduler
    src = textwrap.dedent(inspect.getsource(Scheduler.handle_delayed_event))
    fdef = ast.parse(src).body[0]
    for node in ast.walk(fdef):
        if isinstance(node, ast.If) and "event.delay" in ast.unparse(node.test) and "isinstance" not in ast.unparse(node.test):
            upd = None
            for st in node.body:
                if isinstance(st, (ast.AugAssign, ast.Assign)):
                    tgt = st.target if isinstance(st, ast.AugAssign) else st.targets[0]
                    if ast.unparse(tgt) == "event.delay":
                        upd = st
            if upd is not None:
                return node.test, upd, Scheduler.handle_delayed_event.__globals__
    raise fp.Unsupported("countdown structure of handle_delayed_event not recognised")


def step(ctx, test, upd, d, dt):
    env = {"event.delay": d, "dt": dt}
    c = fp.eval_expr(ctx, test, env)
    if isinstance(upd, ast.AugAssign):
        if not isinstance(upd.op, (ast.Sub, ast.Add)):
            raise fp.Unsupported("augmented assignment %s" % type(upd.op).__name__)
        rhs = fp.eval_expr(ctx, upd.value, env)
        nd = fp.fp_bin("sub" if isinstance(upd.op, ast.Sub) else "add", d, rhs)
    else:
        nd = fp.eval_expr(ctx, upd.value, env)
    return c, nd


def interval(n, dt):
    """doubles x with ceil(x/dt - 1e-9) == n, i.e. (n-1+tol)*dt < x <= (n+tol)*dt (exact reals)"""
    fdt = Fraction(dt)
    lo = (n - 1 + TOL) * fdt
    hi = (n + TOL) * fdt
    a = fp.round_up(lo)
    if Fraction(a) == lo:
        a = fp.next_up(a)
    b = fp.round_down(hi)
    if n == 1:
        a = max(a, 5e-324)
        lo0 = fp.next_up(0.0)
        a = lo0 if lo <= 0 else a
    return a, b


def query(n, dt, negate=True):
    test, upd, glob = extract()
    ctx = fp.Ctx([glob])
    d = ctx.var("d0")
    a, b = interval(n, dt)
    ctx.asserts.append("(fp.leq %s d0)" % fp.fpconst(a))
    ctx.asserts.append("(fp.leq d0 %s)" % fp.fpconst(b))
    conds = []
    cur = d
    for i in range(n + 1):
        c, nd = step(ctx, test, upd, cur, dt)
        c = ctx.define(fp.lift(c), "c")
        conds.append(c)
        cur = ctx.define(fp.lift(nd), "d")
    exact = fp.b_and(*(conds[:n] + [fp.b_not(conds[n])]))
    goal = fp.b_not(exact).s if negate else exact.s
    return fp.script(ctx, [goal], ["d0"]), (a, b)


def deferrals_real(delay, dt):
    """the real Scheduler on a real DelayedEvent"""
    from BPTK_Py.modeling.scheduler import Scheduler
    from BPTK_Py import DelayedEvent
    s = Scheduler()
    ev = DelayedEvent("e", 0, 0, delay)
    n = 0
    while n < 50:
        if s.handle_delayed_event(ev, dt) is None:
            n += 1
        else:
            break
    return n


def expected(delay, dt):
    import math
    q = Fraction(delay) / Fraction(dt)
    return max(0, math.ceil(q - TOL))


def replay(case):
    delay, dt = float(case["delay"]), float(case["dt"])
    got, want = deferrals_real(delay, dt), expected(delay, dt)
    return got != want, "DelayedEvent(delay=%r) with dt=%r is deferred %d times, ceil(delay/dt) = %d" % (delay, dt, got, want)


def run_part(rep, tier):
    from BPTK_Py.modeling.scheduler import Scheduler
    rep.encoded(Scheduler.handle_delayed_event)
    dts = [1.0, 0.5, 0.25, 0.2, 0.1] if tier == "quick" else [1.0, 0.5, 0.25, 0.2, 0.1, 0.05, 0.125, 0.01, 0.3]
    tmo = 60 if tier == "quick" else 300
    jobs = []
    try:
        for dt in dts:
            for n in range(1, MAXN + 1):
                smt, iv = query(n, dt, True)
                jobs.append((dt, n, smt, iv, "main"))
        smt, iv = query(3, 0.1, False)
        jobs.append((0.1, 3, smt, iv, "witness"))
    except fp.Unsupported as e:
        rep.inconcl("delay countdown could not be encoded from the source: %s" % e)
        return {"queries": 0}
    with ThreadPoolExecutor(max_workers=harness.nprocs()) as ex:
        res = list(ex.map(lambda j: fp.solve(j[2], tmo), jobs))
    samples = []
    unsat = 0
    for (dt, n, smt, iv, kind), (r, out) in zip(jobs, res):
        if kind == "witness":
            if r != "sat":
                rep.inconcl("FP reachability witness (dt=0.1, n=3) is %s" % r)
            continue
        if r == "unsat":
            unsat += 1
        elif r == "sat":
            vals = fp.model_values(out, ["d0"])
            if "d0" not in vals:
                rep.inconcl("FP counterexample for dt=%s n=%d could not be parsed" % (dt, n))
                continue
            g_, w_ = deferrals_real(vals["d0"], dt), expected(vals["d0"], dt)
            rep.candidate("delay-fp:dt=%g:%s" % (dt, "late-by-1" if g_ == w_ + 1 else ("early-by-1" if g_ == w_ - 1 else "off-by-%d" % (g_ - w_))),
                          {"kind": "fp", "delay": vals["d0"], "dt": dt},
                          "delay=%r dt=%r: float countdown defers %d times, expected %d" % (
                              vals["d0"], dt, deferrals_real(vals["d0"], dt), expected(vals["d0"], dt)))
        else:
            rep.inconcl("FP query dt=%s n=%d: %s" % (dt, n, r))
        if len(samples) < 3:
            samples.append({"fp_query": "dt=%s deferrals=%d delay in [%r, %r]" % (dt, n, iv[0], iv[1]), "verdict": r})
    # canary: the bare countdown (delay > 0, delay -= dt) must be refuted for dt = 0.1
    rep.canary("bare-float-countdown(dt=0.1)", _canary())
    return {"queries": len(jobs), "unsat": unsat, "samples": samples, "solver": {k: v for k, v in fp.STATS.items() if k != "samples"},
            "smt_sample": fp.STATS["samples"][:1], "dts": dts, "max_deferrals": MAXN}


def _canary():
    test = ast.parse("event.delay > 0", mode="eval").body
    upd = ast.parse("event.delay -= dt").body[0]
    for n in (3, 7):
        ctx = fp.Ctx([{}])
        d = ctx.var("d0")
        a, b = interval(n, 0.1)
        ctx.asserts.append("(fp.leq %s d0)" % fp.fpconst(a))
        ctx.asserts.append("(fp.leq d0 %s)" % fp.fpconst(b))
        conds, cur = [], d
        for i in range(n + 1):
            c, nd = step(ctx, test, upd, cur, 0.1)
            conds.append(ctx.define(fp.lift(c), "c"))
            cur = ctx.define(fp.lift(nd), "d")
        exact = fp.b_and(*(conds[:n] + [fp.b_not(conds[n])]))
        r, out = fp.solve(fp.script(ctx, [fp.b_not(exact).s], ["d0"]), 60)
        if r == "sat":
            return True
    return False
