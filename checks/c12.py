"""C12 - an agent-based run executes every step once, in order, for every agent (CrossHair)."""
import os
from concurrent.futures import ThreadPoolExecutor

from vsym import harness, chx

PID = "C12"
MODULE = "checks.c12"
HFILE = os.path.join(harness.VERIF, "checks", "ch", "c12_h.py")
HFILE_MUT = os.path.join(harness.VERIF, "checks", "ch", "c12_mut.py")


def _with_dt(dt, f, *a):
    """replay helper: the harness module reads dt at import"""
    import importlib
    os.environ["C12_DT"] = repr(dt)
    from checks.ch import c12_h as H
    importlib.reload(H)
    return getattr(H, f)(*a)


def replay(case):
    if case["kind"] == "deletion":
        r = _with_dt(case["dt"], "run_with_deletion", case["stop"], case["npop"], case["deleter"], case["victim"], case["whenstep"] * case["dt"])
    elif case["kind"] == "whole":
        r = _with_dt(case["dt"], "run_whole", case["start"], case["stop"], case["collect"], case["npop"])
    else:
        r = _with_dt(case["dt"], "run_single_steps", case["stop"], case["nsteps"], case["npop"], [None, True, False][case.get("collect") or 0])
    return (r is not None), "%s: %s" % (case, r or "call log equals the reference log")


def _sig(kind, dt, why):
    w = why or ""
    if "raised" in w:
        return "%s:raised:dt=%g" % (kind, dt)
    if "statistics recorded" in w:
        return "%s:statistics-times:dt=%g" % (kind, dt)
    return "%s:call-log:dt=%g" % (kind, dt)


def run(tier):
    from BPTK_Py import Model, SimultaneousScheduler, DataCollector
    rep = harness.Report(PID, tier, "model_checking", MODULE)
    rep.encoded(SimultaneousScheduler.run, SimultaneousScheduler.run_step, Model.run, Model.run_step, Model.run_specs,
                DataCollector.collect_agent_statistics)
    # the claim (both tiers): these conditions must all be confirmed.  The thorough tier adds deeper slices
    # (smaller dt, deletion at small dt) under a wall-time budget; what CrossHair does not finish is not explored.
    base_dts, deep_dts = [1.0, 0.5, 0.25, 0.2, 0.1, 0.125], ([0.05, 0.04] if tier == "thorough" else [])
    dts = base_dts + deep_dts
    jobs = []
    for dt in dts:
        req = dt in base_dts
        tmo = (450 if tier == "quick" else 600) if req else 900
        maxstop = 3
        for st in range(0, maxstop + 1):
            for col in (0, 1):
                jobs.append((HFILE, "_whole", tmo, {"C12_DT": repr(dt), "C12_START": str(st), "C12_COLLECT": str(col),
                                                    "C12_MAXSTOP": str(maxstop)}, ("whole", dt), req))
        jobs.append((HFILE, "_single", tmo, {"C12_DT": repr(dt)}, ("single", dt), req))
        if dt >= 0.2:
            jobs.append((HFILE, "_deletion", tmo, {"C12_DT": repr(dt)}, ("deletion", dt), req))
        elif tier == "thorough":
            jobs.append((HFILE, "_deletion", 900, {"C12_DT": repr(dt)}, ("deletion", dt), False))
    jobs.append((HFILE, "_whole_twin", 60, {"C12_DT": "1.0"}, ("twin", 1.0), True))
    jobs.append((HFILE_MUT, "_whole", 120, {"C12_DT": "0.5"}, ("canary", 0.5), True))
    results = chx.run_jobs([(j[0], j[1], j[2], j[3], j[5]) for j in jobs])
    samples, confirmed = [], 0
    for (hf, fn, t, env, (kind, dt), req), r in zip(jobs, results):
        label = "%s dt=%g" % (kind, dt)
        if kind == "twin":
            if r.verdict != chx.VERDICT_CEX:
                rep.inconcl("reachability twin gave no witness: %s" % r.message[:200])
            continue
        if kind == "canary":
            rep.canary("run-skips-last-round", r.verdict == chx.VERDICT_CEX)
            continue
        if r.verdict == chx.VERDICT_CONFIRMED:
            confirmed += 1
        elif r.verdict == chx.VERDICT_CEX and r.args:
            a = r.args
            if kind == "whole":
                case = {"kind": "whole", "dt": dt, "start": a.get("start", a.get("_pos0")), "stop": a.get("stop", a.get("_pos1")),
                        "collect": a.get("collect", a.get("_pos2")), "npop": a.get("npop", a.get("_pos3"))}
                why = _with_dt(dt, "run_whole", case["start"], case["stop"], case["collect"], case["npop"])
            elif kind == "deletion":
                case = {"kind": "deletion", "dt": dt, "stop": a.get("stop", a.get("_pos0")), "npop": a.get("npop", a.get("_pos1")),
                        "deleter": a.get("deleter", a.get("_pos2")), "victim": a.get("victim", a.get("_pos3")),
                        "whenstep": a.get("whenstep", a.get("_pos4"))}
                why = _with_dt(dt, "run_with_deletion", case["stop"], case["npop"], case["deleter"], case["victim"], case["whenstep"] * dt)
            else:
                case = {"kind": "single", "dt": dt, "stop": a.get("stop", a.get("_pos0")), "nsteps": a.get("nsteps", a.get("_pos1")),
                        "npop": a.get("npop", a.get("_pos2")), "collect": a.get("collect", a.get("_pos3", 0))}
                why = _with_dt(dt, "run_single_steps", case["stop"], case["nsteps"], case["npop"], [None, True, False][case["collect"] or 0])
            rep.candidate(_sig(kind, dt, why), case, "%s %s: %s" % (label, case, why))
        else:
            chx.unfinished(rep, label, r, req)
        if len(samples) < 8:
            samples.append({"condition": label, "verdict": r.verdict, "seconds": round(r.seconds, 1), "message": r.message[:160]})
    rep.assume("start 0..3, stop 1..3 (stop = 0 divides by zero in the progress computation and is outside), population 0..3, collect_data symbolic",
               "dt concrete per condition: %s" % dts,
               "instrumented Model/Agent/DataCollector subclasses only log and delegate",
               "HybridRunner.run_scenario's thread-per-scenario skip logic is outside (needs wall-clock thread progress)")
    rep.coverage.update({"states": max(1, chx.STATS["conditions"]), "transitions": max(1, confirmed),
                         "traces_validated_against_impl": len(rep.cands), "samples": samples or [{"note": "none"}],
                         "crosshair": dict(chx.STATS), "exhaustive": True,
                         "explanation": "states = CrossHair conditions (each = all start/stop/collect/population of one dt); transitions = confirmed over all paths",
                         "outside": "agents created during a run, deletion of a LATER agent during a step (the statement does not fix whether it still acts); stop = 0; HybridRunner threads"})
    return rep.finish()
