"""C07, file channel: scenario managers read from JSON scenario files (one file, and one manager spread over
two files) with an XMILE source.  Real ScenarioManagerFactory.__readScenario / __get_all_base_constants /
__get_all_base_points, ScenarioManagerSd.load_scenarios / instantiate_model (which runs the real transpiler),
SimulationScenario.setup_constants / setup_points, SdRunner.  Constants and point y-values are symbolic
(expression strings, the documented value form for files)."""
import json
import os
import sys

from vsym import sym as S, terms as T, solve
from checks import xmile as X, scen

EQS = ["s", "fin", "g"]
XS = (0.0, 2.0, 4.0)


def stmx():
    vs = [X.aux("k", "1"), X.aux("c", "2"), X.aux("g", "TIME", gf=((0.0, 4.0), [1.0, 3.0, 2.0])),
          X.stock("S", "5", ["fin"], []), X.flow("fin", "k * g + c", True)]
    return X.document("filemodel", "0", "4", "<dt>1</dt>", vs)


def pts(prefix, mode, env):
    if mode == "sym":
        return "[" + ", ".join("(%r, %s)" % (x, S.symstr("%s_y%d" % (prefix, i))) for i, x in enumerate(XS)) + "]"
    return "[" + ", ".join("(%r, %r)" % (x, float((env or {}).get("%s_y%d" % (prefix, i), 1.0 + i))) for i, x in enumerate(XS)) + "]"


def const(name, mode, env):
    if mode == "sym":
        return S.symstr(name)
    return repr(float((env or {}).get(name, {"bk": 1.5, "bc": 0.5, "ak": 3.0, "bk2": 2.5}.get(name, 2.0))))


CELLS = ["one-file:scenario-constants", "one-file:base-constants", "one-file:base+scenario", "one-file:base-points",
         "one-file:scenario-points", "two-files:base-in-first", "two-files:base-in-second", "one-file:none"]


def build(cell, root, mode, env=None):
    """writes model + scenario files under root; returns expected settings per scenario {name: (constants, points)}"""
    os.makedirs(os.path.join(root, "scenarios"), exist_ok=True)
    os.makedirs(os.path.join(root, "simmodels"), exist_ok=True)
    tag = "fm_%d_%d" % (os.getpid(), abs(hash((cell, mode))) % 100000)
    with open(os.path.join(root, "simmodels", tag + ".stmx"), "w") as f:
        f.write(stmx())
    mgr = {"model": "simmodels/" + tag, "source": "simmodels/%s.stmx" % tag, "scenarios": {"A": {}, "B": {}}}
    files = [{"smf": mgr}]
    exp = {"A": ({}, {}), "B": ({}, {})}
    bk, bc, ak = const("bk", mode, env), const("bc", mode, env), const("ak", mode, env)
    if cell == "one-file:scenario-constants":
        mgr["scenarios"]["A"]["constants"] = {"k": ak}
        exp["A"][0]["k"] = ak
    elif cell == "one-file:base-constants":
        mgr["base_constants"] = {"k": bk, "c": bc}
        for s_ in exp:
            exp[s_][0].update({"k": bk, "c": bc})
    elif cell == "one-file:base+scenario":
        mgr["base_constants"] = {"k": bk, "c": bc}
        mgr["scenarios"]["A"]["constants"] = {"k": ak}
        for s_ in exp:
            exp[s_][0].update({"k": bk, "c": bc})
        exp["A"][0]["k"] = ak
    elif cell == "one-file:base-points":
        mgr["base_points"] = {"g": pts("bp", mode, env)}
        for s_ in exp:
            exp[s_][1]["g"] = mgr["base_points"]["g"]
    elif cell == "one-file:scenario-points":
        mgr["scenarios"]["A"]["points"] = {"g": pts("ap", mode, env)}
        exp["A"][1]["g"] = mgr["scenarios"]["A"]["points"]["g"]
    elif cell in ("two-files:base-in-first", "two-files:base-in-second"):
        first = {"model": mgr["model"], "source": mgr["source"], "scenarios": {"A": {"constants": {"k": ak}}}}
        second = {"model": mgr["model"], "source": mgr["source"], "scenarios": {"B": {}}}
        (first if cell.endswith("first") else second)["base_constants"] = {"c": bc}
        (first if cell.endswith("first") else second)["base_points"] = {"g": pts("bp", mode, env)}
        files = [{"smf": first}, {"smf": second}]
        exp["A"][0].update({"k": ak, "c": bc})
        exp["B"][0].update({"c": bc})
        for s_ in exp:
            exp[s_][1]["g"] = pts("bp", mode, env)
    for i, content in enumerate(files):
        with open(os.path.join(root, "scenarios", "f%d.json" % i), "w") as f:
            json.dump(content, f)
    return tag, exp


def run_cell(cell, root, mode, env=None):
    import BPTK_Py
    cfg = sys.modules["BPTK_Py.config.config"]
    tag, exp = build(cell, root, mode, env)
    old_cwd = os.getcwd()
    os.chdir(root)
    sys.path.insert(0, root)
    saved = cfg.configuration.get("scenario_storage")
    try:
        cfg.configuration["scenario_storage"] = os.path.join(root, "scenarios")
        b = BPTK_Py.bptk()
        b.scenario_manager_factory.scenario_managers = {}
        b.scenario_manager_factory.get_scenario_managers(path=os.path.join(root, "scenarios"))
        mod = sys.modules.get("simmodels." + tag)
        if mod is None:
            raise RuntimeError("transpiled module simmodels.%s was not loaded; managers: %s" % (tag, list(b.scenario_manager_factory.scenario_managers)))
        if mode == "sym":
            X.bind_stubs(mod)
        results, expected = {}, {}
        for sc in ("A", "B"):
            df = b.run_scenarios(scenarios=[sc], scenario_managers=["smf"], equations=EQS, return_format="df")
            results[sc] = scen.from_df(df, "smf", sc, EQS)
            fresh = mod.simulation_model()
            for n, v in exp[sc][0].items():
                fresh.equations[n] = (lambda vv: (lambda t: vv))(eval(v))
            for n, p in exp[sc][1].items():
                fresh.points[n] = eval(p)
            expected[sc] = {e: {t: fresh.memoize(e, t) for t in (0.0, 1.0, 2.0, 3.0, 4.0)} for e in EQS}
        b.destroy()
        return results, expected
    finally:
        cfg.configuration["scenario_storage"] = saved
        os.chdir(old_cwd)
        if root in sys.path:
            sys.path.remove(root)
        for k in [k for k in sys.modules if k.startswith("simmodels")]:
            del sys.modules[k]


def compare(results, expected, pc, timeout_s, numeric=False):
    for sc in ("A", "B"):
        got, want = results.get(sc), expected[sc]
        for e in EQS:
            if not got or got.get(e) is None:
                return "scenario %s: equation %s missing from the results" % (sc, e), None
            if sorted(got[e]) != sorted(want[e]):
                return "scenario %s: time grid %s, expected %s" % (sc, sorted(got[e]), sorted(want[e])), None
            for t in sorted(want[e]):
                if numeric:
                    a, b = float(got[e][t]), float(want[e][t])
                    if abs(a - b) > 1e-9 * (1 + abs(b)):
                        return "scenario %s: %s(%s) = %r, fresh model with the file's settings gives %r" % (sc, e, t, a, b), None
                else:
                    v = solve.prove_equal(S.term_of(got[e][t]), S.term_of(want[e][t]), pc, timeout_s=timeout_s)
                    if v.status == "violated":
                        return "scenario %s: %s(%s) differs from the fresh model with the file's settings" % (sc, e, t), \
                            solve.complete_model(v.model, S.term_of(got[e][t]), S.term_of(want[e][t]))
                    if v.status == "unknown":
                        return "UNKNOWN " + v.detail, None
    return None
