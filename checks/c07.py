"""C07 - a scenario's settings determine its results exactly.

Engine: vsym (Real mode).  The real registration / scenario / runner / simulation / session / REST code
is executed; constants and point y-values are symbols delivered in the value forms the API accepts;
the oracle is a freshly built model carrying exactly the scenario's settings, simulated on the
scenario's own grid.  z3 decides equality of every value; grids are compared exactly."""
import copy
import json
from fractions import Fraction

from vsym import terms as T, sym as S, solve, harness
from checks import scen

PID = "C07"
MODULE = "checks.c07"

MS, ME, MD = 0.0, 4.0, 1.0          # the model's own run specs


def leaves(mode, env=None):
    """mode 'sym': symbolic setting values; 'float': concrete from env"""
    if mode == "sym":
        return (lambda n: scen.sym_const(n)), (lambda p: scen.sym_points(p))
    env = env or {}

    def const(n):
        return float(env.get(n, _default(n)))

    def pts(p):
        return [[x, float(env.get("%s_y%d" % (p, i), _default("%s_y%d" % (p, i))))] for i, x in enumerate((0.0, 2.0, 4.0, 50.0))]
    return const, pts


def _default(n):
    h = sum(ord(ch) * (i + 1) for i, ch in enumerate(n))
    return [1.5, 2.25, 0.75, 3.5, 0.5, 4.0][h % 6]


def cells(tier):
    out = []
    # rest_rerun: the scenario was already run on that server before the /run request that carries the settings
    for channel in ("register", "session", "run_step", "rest_run", "rest_session", "rest_rerun"):
        for kind in ("constant", "points"):
            levels = ("base", "scenario", "both") if channel == "register" else ("scenario", "both")
            for level in levels:
                out.append((channel, kind, level))
        for kind in ("starttime", "stoptime", "dt", "finegrid"):
            if channel in ("run_step",):
                continue                      # per-step settings carry no run specs
            out.append((channel, kind, "scenario"))
        out.append((channel, "none", "none"))           # a scenario without overrides reproduces the model
        out.append((channel, "constant-zero", "both"))  # an override whose value is falsy (0.0) must still win over the base value
        if channel != "run_step":
            out.append((channel, "constant+points", "scenario"))      # two kinds of settings delivered together
            out.append((channel, "constant+points+dt", "scenario"))
    if tier == "thorough":
        import itertools
        names = ["constant", "points", "starttime", "stoptime", "dt"]
        for channel in ("register", "session", "rest_run", "rest_rerun", "rest_session"):
            for r in (2, 3, 4, 5):
                for combo in itertools.combinations(names, r):
                    for level in (("both", "scenario") if ("constant" in combo or "points" in combo) else ("scenario",)):
                        out.append((channel, "+".join(combo), level))
    return out


def describe(cell):
    return "channel=%s setting=%s level=%s" % cell


def factory_for(base_extra):
    def factory():
        import BPTK_Py
        m = scen.base_model(MS, ME, MD, name="c07")
        b = BPTK_Py.bptk()
        mgr = {"model": m}
        mgr.update(copy.deepcopy(base_extra))
        b.register_scenario_manager({"sm": mgr})
        return b
    return factory


def run_cell(cell, mode, env=None):
    """-> (results {scenario: {eq: {t: v}}}, expected {scenario: (start, stop, dt, constants, points)})"""
    import BPTK_Py
    channel, kind, level = cell
    const, pts = leaves(mode, env)
    kinds = kind.split("+")
    base_extra, scen_a, later = {}, {}, {}
    exp_const, exp_points = {}, {}
    exp_b_const, exp_b_points = {}, {}
    rs = {"starttime": MS, "stoptime": ME, "dt": MD}
    if "constant" in kinds:
        if level in ("base", "both"):
            base_extra["base_constants"] = {"k": const("bk"), "c": const("bc")}
            exp_const.update(base_extra["base_constants"])
            exp_b_const.update(base_extra["base_constants"])
        if level in ("scenario", "both"):
            later.setdefault("constants", {})["k"] = const("ak")
            exp_const["k"] = later["constants"]["k"]
    if "constant-zero" in kinds:
        base_extra["base_constants"] = {"k": const("bk"), "c": const("bc")}
        exp_const.update(base_extra["base_constants"])
        exp_b_const.update(base_extra["base_constants"])
        later.setdefault("constants", {})["k"] = 0.0
        later["constants"]["c"] = 0
        exp_const["k"], exp_const["c"] = 0.0, 0
    if "points" in kinds:
        if level in ("base", "both"):
            base_extra["base_points"] = {"pts": pts("bp")}
            exp_points["pts"] = base_extra["base_points"]["pts"]
            exp_b_points["pts"] = base_extra["base_points"]["pts"]
        if level in ("scenario", "both"):
            later.setdefault("points", {})["pts"] = pts("ap")
            exp_points["pts"] = later["points"]["pts"]
    for k, v in (("starttime", 2.0), ("stoptime", 3.0), ("dt", 0.5)):
        if k in kinds:
            later.setdefault("runspecs", {})[k] = v
            rs[k] = v
    if "finegrid" in kinds:
        # a start time with more decimals than dt, the stop time on that grid (0.5, 1.5, 2.5; 2.5 is the value a half-even rounding to dt's precision would move)
        later.setdefault("runspecs", {}).update({"starttime": 0.5, "stoptime": 2.5})
        rs.update({"starttime": 0.5, "stoptime": 2.5})
    if channel == "register":
        scen_a = later
        later = {}
    fac = factory_for(base_extra)
    results = {}
    if channel in ("register", "session", "run_step"):
        b = fac()
        b.register_scenarios(scenario_manager="sm", scenarios={"A": copy.deepcopy(scen_a), "B": {}})
        if channel == "register":
            df = b.run_scenarios(scenarios=["A"], scenario_managers=["sm"], equations=scen.EQS, return_format="df")
            results["A"] = scen.from_df(df, "sm", "A")
            dfb = b.run_scenarios(scenarios=["B"], scenario_managers=["sm"], equations=scen.EQS, return_format="df")
            results["B"] = scen.from_df(dfb, "sm", "B")
        else:
            first = copy.deepcopy(later) if channel == "session" else {}
            b.begin_session(scenarios=["A"], scenario_managers=["sm"], equations=scen.EQS,
                            settings={"sm": {"A": first}} if first else {}, starttime=rs["starttime"], dt=rs["dt"])
            steps = []
            n = len(scen.grid(rs["starttime"], rs["stoptime"], rs["dt"]))
            for i in range(n + 1):
                st = {"sm": {"A": copy.deepcopy(later)}} if (channel == "run_step" and i == 0 and later) else None
                r = b.run_step(settings=st)
                if isinstance(r, dict) and r.get("msg"):
                    break
                steps.append(scen.from_step(r, "sm", "A"))
            results["A"] = scen.merge_steps(steps)
            b.end_session()
            dfb = b.run_scenarios(scenarios=["B"], scenario_managers=["sm"], equations=scen.EQS, return_format="df")
            results["B"] = scen.from_df(dfb, "sm", "B")
    else:
        from BPTK_Py.server import BptkServer

        def fac2():
            b = fac()
            b.register_scenarios(scenario_manager="sm", scenarios={"A": {}, "B": {}})
            return b
        app = BptkServer(__name__, fac2)
        c = app.test_client()
        if channel in ("rest_run", "rest_rerun"):
            body = {"scenario_managers": ["sm"], "scenarios": ["A"], "equations": scen.EQS}
            if channel == "rest_rerun":
                c.post("/run", data=json.dumps(body), content_type="application/json")
            if later:
                body["settings"] = {"sm": {"A": later}}
            r = c.post("/run", data=json.dumps(body), content_type="application/json")
            results["A"] = scen.from_dict(scen.loads(r.data), "sm", "A") if r.status_code == 200 else {"_status": r.status_code}
            rb = c.post("/run", data=json.dumps({"scenario_managers": ["sm"], "scenarios": ["B"], "equations": scen.EQS}),
                        content_type="application/json")
            results["B"] = scen.from_dict(scen.loads(rb.data), "sm", "B") if rb.status_code == 200 else {"_status": rb.status_code}
        else:
            r = c.post("/start-instance", data=json.dumps({"timeout": {"hours": 1}}), content_type="application/json")
            inst = json.loads(r.data)["instance_uuid"]
            body = {"scenario_managers": ["sm"], "scenarios": ["A"], "equations": scen.EQS}
            if later:
                body["settings"] = {"sm": {"A": later}}
            c.post("/%s/begin-session" % inst, data=json.dumps(body), content_type="application/json")
            steps = []
            n = len(scen.grid(rs["starttime"], rs["stoptime"], rs["dt"]))
            for i in range(n + 1):
                rr = c.post("/%s/run-step" % inst)
                d = scen.loads(rr.data)
                if isinstance(d, dict) and d.get("msg"):
                    break
                steps.append(scen.from_step(d, "sm", "A"))
            results["A"] = scen.merge_steps(steps)
            rb = c.post("/run", data=json.dumps({"scenario_managers": ["sm"], "scenarios": ["B"], "equations": scen.EQS}),
                        content_type="application/json")
            results["B"] = scen.from_dict(scen.loads(rb.data), "sm", "B") if rb.status_code == 200 else {"_status": rb.status_code}
    expected = {"A": (rs["starttime"], rs["stoptime"], rs["dt"], exp_const, exp_points),
                "B": (MS, ME, MD, exp_b_const, exp_b_points)}
    return results, expected


def compare(results, expected, pc, timeout_s, numeric=False):
    """None or (what, model)"""
    for sc in ("A", "B"):
        st, en, dt, cs, ps = expected[sc]
        want = scen.fresh_results(st, en, dt, cs, ps)
        got = results.get(sc)
        if not isinstance(got, dict) or "_status" in got:
            return "scenario %s: no results (%r)" % (sc, got), None
        for e in scen.EQS:
            if got.get(e) is None:
                return "scenario %s: equation %s missing from the results" % (sc, e), None
            gl, wl = sorted(got[e].keys()), sorted(want[e].keys())
            if gl != wl:
                return "scenario %s: time grid of %s is %s, expected %s (start=%s stop=%s dt=%s)" % (sc, e, gl, wl, st, en, dt), None
            for t in wl:
                if numeric:
                    a, b = float(got[e][t]), float(want[e][t])
                    if abs(a - b) > 1e-9 * (1 + abs(b)):
                        return "scenario %s: %s(%s) = %r, fresh model with the scenario's settings gives %r" % (sc, e, t, a, b), None
                else:
                    v = solve.prove_equal(S.term_of(got[e][t]), S.term_of(want[e][t]), pc, timeout_s=timeout_s)
                    if v.status == "violated":
                        return "scenario %s: %s(%s) differs from the fresh model with the scenario's settings" % (sc, e, t), \
                            solve.complete_model(v.model, S.term_of(got[e][t]), S.term_of(want[e][t]))
                    if v.status == "unknown":
                        return "UNKNOWN %s" % v.detail, None
    return None


def check_cell(cell, timeout_s):
    def run():
        try:
            return ("ok",) + run_cell(cell, "sym")
        except Exception as e:
            import traceback
            return ("exc", e, traceback.format_exc()[-600:])
    try:
        paths = S.explore(run, max_paths=16)
    except (S.PathCapExceeded, S.SolverUnknown, S.SymbolicEscape) as e:
        return "unknown", "explore: %r" % (e,)
    for p in paths:
        if p.exc is not None:
            return "unknown", "harness: %r" % (p.exc,)
        if p.out[0] == "exc":
            return "violated", {"_what": "raised %r" % (p.out[1],), "_tb": p.out[2]}
        r = compare(p.out[1], p.out[2], p.pc, timeout_s)
        if r:
            what, mdl = r
            if what.startswith("UNKNOWN"):
                return "unknown", what
            info = dict(mdl or {})
            info["_what"] = what
            return "violated", info
    return "holds", len(paths)


def check_file_cell(cell, timeout_s):
    import tempfile
    import shutil
    from checks import c07_files as F
    root = tempfile.mkdtemp(prefix="c07f-", dir=__import__("os").environ.get("VCHECK_SCRATCH"))
    try:
        def run():
            try:
                return ("ok",) + F.run_cell(cell, root, "sym")
            except Exception as e:
                import traceback
                return ("exc", e, traceback.format_exc()[-500:])
        try:
            paths = S.explore(run, max_paths=16)
        except (S.PathCapExceeded, S.SolverUnknown, S.SymbolicEscape) as e:
            return "unknown", "explore: %r" % (e,)
        for p in paths:
            if p.exc is not None:
                return "unknown", "harness: %r" % (p.exc,)
            if p.out[0] == "exc":
                return "violated", {"_what": "raised %r" % (p.out[1],)}
            r = F.compare(p.out[1], p.out[2], p.pc, timeout_s)
            if r:
                if r[0].startswith("UNKNOWN"):
                    return "unknown", r[0]
                return "violated", dict(r[1] or {}, _what=r[0])
        return "holds", None
    finally:
        shutil.rmtree(root, ignore_errors=True)


def canary_file_base_constants_ignored():
    from BPTK_Py.scenariomanager.scenario_manager_factory import ScenarioManagerFactory as F_
    name = "_ScenarioManagerFactory__get_all_base_constants"
    orig = getattr(F_, name)
    setattr(F_, name, lambda self, scenario_manager, filenames: {})
    try:
        st, info = check_file_cell("one-file:base-constants", 10)
    finally:
        setattr(F_, name, orig)
    return st == "violated"


def replay(case):
    if case.get("kind") == "file":
        import tempfile
        import shutil
        from checks import c07_files as F
        root = tempfile.mkdtemp(prefix="c07f-")
        try:
            for env in (case.get("env", {}), {}):
                try:
                    res, exp = F.run_cell(case["cell"], root, "float", env)
                except Exception as e:
                    return True, "scenario files %s: raised %r" % (case["cell"], e)
                r = F.compare(res, exp, (), 0, numeric=True)
                if r:
                    return True, "scenario files %s: %s" % (case["cell"], r[0])
                shutil.rmtree(root, ignore_errors=True)
                root = tempfile.mkdtemp(prefix="c07f-")
            return False, "scenario files %s: results equal the fresh transpiled model with the files' settings" % case["cell"]
        finally:
            shutil.rmtree(root, ignore_errors=True)
    cell = tuple(case["cell"])
    for env in (case.get("env", {}), {}, {"ak": 3.25, "bk": 0.5, "bc": 1.0, "ap_y0": 9.0, "ap_y1": 1.0, "ap_y2": 5.0, "bp_y1": 7.0}):
        try:
            results, expected = run_cell(cell, "float", env)
        except Exception as e:
            return True, "%s: raised %r" % (describe(cell), e)
        r = compare(results, expected, (), 0, numeric=True)
        if r:
            return True, "%s: %s" % (describe(cell), r[0])
    return False, "%s: results equal the fresh model" % describe(cell)


def signature(cell, what):
    channel, kind, level = cell
    if "time grid" in what:
        return "grid:%s:%s" % (kind, channel)
    if "missing" in what or "no results" in what or "raised" in what:
        return "noresult:%s:%s" % (kind, channel)
    sc = "sibling" if "scenario B" in what else "own"
    return "value:%s:%s:%s:%s" % (kind, level, channel, sc)


def canary_base_constants_ignored():
    import BPTK_Py.scenariomanager.scenario_manager_sd as sm
    orig = sm.ScenarioManagerSd.add_scenarios

    def bad(self, scenario_dictionary):
        saved = self.base_constants
        self.base_constants = {}
        try:
            return orig(self, scenario_dictionary)
        finally:
            self.base_constants = saved
    sm.ScenarioManagerSd.add_scenarios = bad
    try:
        st, info = check_cell(("register", "constant", "base"), 10)
    finally:
        sm.ScenarioManagerSd.add_scenarios = orig
    return st == "violated"


def canary_override_order():
    """base constants win over the scenario's own constants"""
    import BPTK_Py.scenariomanager.scenario_manager_sd as sm
    orig = sm.ScenarioManagerSd.add_scenarios

    def bad(self, scenario_dictionary):
        for name, sc in scenario_dictionary.items():
            if "constants" in sc:
                for k, v in self.base_constants.items():
                    sc["constants"][k] = v
        return orig(self, scenario_dictionary)
    sm.ScenarioManagerSd.add_scenarios = bad
    try:
        st, info = check_cell(("register", "constant", "both"), 10)
    finally:
        sm.ScenarioManagerSd.add_scenarios = orig
    return st == "violated"


def run(tier):
    from BPTK_Py.scenariomanager.scenario import SimulationScenario
    from BPTK_Py.scenariomanager.scenario_manager_sd import ScenarioManagerSd
    from BPTK_Py.scenariorunners.sd_runner import SdRunner
    from BPTK_Py.sdsimulation.sd_simulation import SdSimulation
    from BPTK_Py.bptk import bptk
    import BPTK_Py.server.bptkServer as srv
    rep = harness.Report(PID, tier, "model_checking", MODULE)
    rep.encoded(SimulationScenario.__init__, SimulationScenario.configure_settings, ScenarioManagerSd.add_scenarios,
                ScenarioManagerSd.get_cloned_model, SdRunner._run_scenarios, SdRunner.run_scenario_step,
                SdSimulation.change_equation, SdSimulation.change_points, SdSimulation.change_runspecs, SdSimulation.start,
                bptk.register_scenario_manager, bptk.register_scenarios, bptk.begin_session, bptk.run_step,
                bptk.run_scenarios, srv.BptkServer._run_resource, srv.BptkServer._begin_session_resource,
                srv.BptkServer._run_step_resource)
    timeout = 20 if tier == "quick" else 60
    stubs = harness.Stubs()
    harness.install_sd_stubs(stubs)
    scen.install_json_hooks(stubs)
    cs = cells(tier)
    counts = {"holds": 0, "violated": 0, "unknown": 0}
    samples, bad = [], []
    try:
        for cell in cs:
            st, info = check_cell(cell, timeout)
            counts[st] += 1
            if st == "violated":
                bad.append((cell, info))
            elif st == "unknown":
                rep.inconcl("%s: %s" % (describe(cell), info))
            if len(samples) < 10 and (len(samples) < 5 or st != "holds"):
                samples.append({"cell": describe(cell), "verdict": st, "info": str(info.get("_what") if isinstance(info, dict) else info)[:200]})
        # scenario files (one file / one manager spread over two files) with an XMILE source
        from checks import c07_files
        for fc in c07_files.CELLS:
            st, info = check_file_cell(fc, timeout)
            counts[st] += 1
            if st == "violated":
                env = {k: float(v) for k, v in info.items() if isinstance(v, (Fraction, int, float)) and not isinstance(v, bool)}
                rep.candidate("file:%s" % fc, {"kind": "file", "cell": fc, "env": env}, "scenario files %s: %s" % (fc, info.get("_what")))
            elif st == "unknown":
                rep.inconcl("scenario files %s: %s" % (fc, info))
            samples.append({"cell": "scenario files " + fc, "verdict": st})
        rep.canary("file-base-constants-ignored", canary_file_base_constants_ignored())
        rep.canary("base-constants-ignored", canary_base_constants_ignored())
        rep.canary("base-constants-override-scenario", canary_override_order())
    finally:
        stubs.restore()
    for cell, info in bad:
        env = {k: float(v) for k, v in info.items() if isinstance(v, (Fraction, int, float)) and not isinstance(v, bool)}
        rep.candidate(signature(cell, info.get("_what", "")), {"cell": list(cell), "env": env}, "%s: %s" % (describe(cell), info.get("_what")))
    rep.assume("DSL-built model for the registration/session/REST channels; an XMILE-sourced model (transpiled by the real pipeline) for the JSON scenario-file channel (one file, one manager spread over two files, base constants/points in either file)",
               "constants and point y-values are symbols delivered as expression strings (a documented value type); run-spec values concrete: start 0->2, stop 4->3, dt 1->0.5",
               "the oracle is a freshly built model (plain modelling API) with exactly the scenario's settings")
    rep.coverage.update({"states": len(cs) + len(c07_files.CELLS), "transitions": max(1, counts["holds"]), "traces_validated_against_impl": len(bad),
                         "samples": samples, "verdicts": counts, "exhaustive": True,
                         "explanation": "states = configuration cells (channel x setting kind x level); transitions = cells proved equal to the fresh model for all setting values",
                         "outside": "YAML scenario files, hybrid/ABM properties, file-monitor reloads"})
    return rep.finish()
