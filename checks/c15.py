"""C15 - with a bearer token set, protected endpoints serve and change nothing without it.

Part 1 (solver-decided): CrossHair on the REAL token_required decorator with a symbolic presence flag,
symbolic Authorization header and symbolic token: the view runs only if the header presents exactly the
token; otherwise a non-success status or an exception.
Part 2 (finite enumeration, stated as such): every rule x method of the live app's URL map x credential
shapes x three server states through the Flask test client, with a deep state snapshot before/after.
"""
import copy
import hashlib
import json
import os
import shutil
import tempfile
from concurrent.futures import ThreadPoolExecutor

from vsym import harness, chx

PID = "C15"
MODULE = "checks.c15"
HFILE = os.path.join(harness.VERIF, "checks", "ch", "c15_h.py")
HFILE_MUT = os.path.join(harness.VERIF, "checks", "ch", "c15_mut.py")
TOKEN = "aBcd"
PUBLIC = {"/", "/healthy", "/metrics", "/full-metrics"}


def bptk_factory():
    import BPTK_Py
    from BPTK_Py import Model
    model = Model(starttime=1.0, stoptime=10.0, dt=1.0, name="m")
    stock, flow, constant = model.stock("stock"), model.flow("flow"), model.constant("constant")
    stock.initial_value = 0.0
    stock.equation = flow
    flow.equation = constant
    constant.equation = 1.0
    b = BPTK_Py.bptk()
    b.register_scenario_manager({"sm": {"model": model}})
    b.register_scenarios(scenario_manager="sm", scenarios={"1": {"constants": {"constant": 1.0}}, "2": {"constants": {"constant": 2.0}}})
    return b


def credentials(token):
    """credential shapes that do NOT present the token (second space-separated word != token)"""
    out = []
    for name, cred in _credential_shapes(token):
        if cred is not None:
            parts = cred.split(" ")
            if len(parts) > 1 and parts[1] == token:
                continue
        out.append((name, cred))
    return out


def _credential_shapes(token):
    return [("absent", None), ("empty", ""), ("scheme-only", "Bearer"), ("empty-token", "Bearer "),
            ("wrong", "Bearer zzzz"), ("prefix", "Bearer " + token[:-1]), ("suffix", "Bearer " + token + "x"),
            ("case", "Bearer " + token.swapcase()), ("no-scheme", token), ("two-spaces", "Bearer  " + token),
            ("token-first", token + " Bearer"), ("basic", "Basic " + token[::-1]), ("third-word", "Bearer x " + token),
            ("tab-separated", "Bearer\t" + token), ("trailing-junk", "Bearer " + token + "\t")]


def auth(token):
    return {"Authorization": "Bearer " + token}


def build_state(kind, statedir):
    """server in one of the three states, built with authorised requests"""
    from BPTK_Py.server import BptkServer
    from BPTK_Py.externalstateadapter import FileAdapter

    class CountingAdapter(FileAdapter):
        """the real FileAdapter; write operations are counted (a refused request must not write at all, even
        content that happens to equal what is stored already)"""
        writes = 0

        def _save_instance(self, state):
            CountingAdapter.writes += 1
            return FileAdapter._save_instance(self, state)

        def _save_state(self, states):
            CountingAdapter.writes += 1
            return FileAdapter._save_state(self, states)

        def delete_instance(self, uid):
            CountingAdapter.writes += 1
            return FileAdapter.delete_instance(self, uid)
    app = BptkServer(__name__, bptk_factory, CountingAdapter(False, statedir), TOKEN)
    app._verif_adapter = CountingAdapter
    c = app.test_client()
    inst = None
    if kind in ("session", "locked", "persisted"):
        r = c.post("/start-instance", headers=auth(TOKEN), json={"timeout": {"hours": 1}})
        inst = json.loads(r.data)["instance_uuid"]
        c.post("/%s/begin-session" % inst, headers=auth(TOKEN),
               json={"scenario_managers": ["sm"], "scenarios": ["1"], "equations": ["stock", "constant"]})
        c.post("/%s/run-step" % inst, headers=auth(TOKEN), json={"settings": {"sm": {"1": {"constants": {"constant": 3.0}}}}})
        if kind == "locked":
            app._instance_manager._instances[inst]["instance"].lock()
        if kind == "persisted":
            # the instance's state is in the external store but not in this server's memory (what an idle timeout, or
            # a second replica on the same store, leaves behind): a request may restore it - a refused one must not
            app._instance_manager._instances[inst]["instance"].destroy()
            del app._instance_manager._instances[inst]
    return app, c, inst


def snapshot(app, statedir):
    im = app._instance_manager
    snap = {"ids": sorted(im._instances.keys()), "instances": {}}
    for k, d in im._instances.items():
        b = d["instance"]
        scen = {}
        for mn, mgr in b.scenario_manager_factory.scenario_managers.items():
            for sn, sc in mgr.scenarios.items():
                scen["%s/%s" % (mn, sn)] = (copy.deepcopy(getattr(sc, "constants", None)), copy.deepcopy(getattr(sc, "points", None)),
                                            getattr(sc, "starttime", None), getattr(sc, "stoptime", None), getattr(sc, "dt", None),
                                            sc.sd_simulation is not None if hasattr(sc, "sd_simulation") else None)
        snap["instances"][k] = {"time": d["time"], "timeout": copy.deepcopy(d["timeout"]),
                                "session": copy.deepcopy(b.session_state), "scenarios": scen}
    base = {}
    if app._bptk is not None:
        for mn, mgr in app._bptk.scenario_manager_factory.scenario_managers.items():
            for sn, sc in mgr.scenarios.items():
                base["%s/%s" % (mn, sn)] = (copy.deepcopy(getattr(sc, "constants", None)), copy.deepcopy(getattr(sc, "points", None)),
                                            getattr(sc, "starttime", None), getattr(sc, "stoptime", None), getattr(sc, "dt", None))
    snap["base"] = base
    files = {}
    for fn in sorted(os.listdir(statedir)):
        with open(os.path.join(statedir, fn), "rb") as f:
            files[fn] = hashlib.sha256(f.read()).hexdigest()
    snap["files"] = files
    snap["external_writes"] = getattr(getattr(app, "_verif_adapter", None), "writes", 0)
    return snap


BODIES = [None,
          {"scenario_managers": ["sm"], "scenarios": ["1"], "equations": ["stock"], "numberSteps": 2, "timeout": {"hours": 2},
           "instances": 2, "scenario_manager": "sm", "scenarioManager": "sm", "scenario": "1",
           "settings": {"sm": {"1": {"constants": {"constant": 9.0}, "runspecs": {"stoptime": 3.0}}}}}]


def requests_for(app, inst):
    out = []
    for rule in app.url_map.iter_rules():
        if rule.endpoint == "static":
            continue
        # HEAD is dispatched to the GET view (the view runs in full); OPTIONS is answered by Flask itself without calling the view
        for method in sorted(rule.methods - {"OPTIONS"}):
            # "0"*32 is a placeholder: probe() substitutes the id of the instance of ITS OWN fresh server
            ids = ["0" * 32, "ffffffffffffffffffffffffffffffff"] if "<instance_uuid>" in rule.rule else [None]
            for i in ids:
                url = rule.rule.replace("<instance_uuid>", i) if i else rule.rule
                out.append((rule.rule, method, url))
    return out


def probe(kind, rule, method, url, cred_name, cred, body, statedir_root, warm=False):
    """one refused-request experiment on a fresh server; returns None or a description.
    warm: the same request is first made WITH the token (whatever it does is legitimate); the refused one follows"""
    d = tempfile.mkdtemp(prefix="c15-", dir=statedir_root)
    try:
        app, c, inst = build_state(kind, d)
        url = url.replace("0" * 32, inst) if inst else url
        if warm:
            try:
                r0 = c.open(url, method=method, headers=auth(TOKEN), json=body) if body is not None else c.open(url, method=method, headers=auth(TOKEN))
                _ = r0.data
            except Exception:
                pass
        before = snapshot(app, d)
        headers = {} if cred is None else {"Authorization": cred}
        try:
            r = c.open(url, method=method, headers=headers, json=body) if body is not None else c.open(url, method=method, headers=headers)
            status = r.status_code
            _ = r.data
        except Exception as e:
            status = 500
        after = snapshot(app, d)
        w = " right after the same request was served with the token" if warm else ""
        if status < 400:
            return "status %d for %s %s with credentials '%s' (%r) in state %s%s" % (status, method, rule, cred_name, cred, kind, w)
        if after != before:
            diff = [k for k in after if after[k] != before[k]]
            return "state changed (%s) by refused %s %s with credentials '%s' in state %s%s" % (diff, method, rule, cred_name, kind, w)
        return None
    finally:
        shutil.rmtree(d, ignore_errors=True)


def replay(case):
    if case.get("kind") == "decorator":
        from checks.ch import c15_h as H
        served, status, raised = H.attempt(case["present"], case["header"], case["token"])
        ok = H.presents_exactly(case["present"], case["header"], case["token"])
        bad = (served and not ok) or (not served and not raised and not (status is not None and status >= 400))
        return bad, "decorator with token %r, header present=%r %r: served=%r status=%r raised=%r" % (
            case["token"], case["present"], case["header"], served, status, raised)
    root = tempfile.mkdtemp(prefix="c15-replay-")
    try:
        body = BODIES[case["body"]]
        r = probe(case["state"], case["rule"], case["method"], case["url"], case["cred_name"], case["cred"], body, root, warm=case.get("warm", False))
        return (r is not None), r or "refused without side effects"
    finally:
        shutil.rmtree(root, ignore_errors=True)


def run(tier):
    import BPTK_Py.server.bptkServer as srv
    rep = harness.Report(PID, tier, "model_checking", MODULE)
    rep.encoded(srv.BptkServer.token_required, srv.BptkServer.__init__)
    # the claim (both tiers): header <= 5, token <= 2 characters; the thorough tier adds header <= 7, token <= 3
    # under a wall-time budget (not explored if CrossHair does not finish)
    hm, tm, tmo = 5, 2, (300 if tier == "quick" else 450)
    env = {"C15_HMAX": str(hm), "C15_TMAX": str(tm)}
    jobs = [(HFILE, "_served_only_with_token", tmo, env, "main", True),
            (HFILE, "_served_only_with_token_twin", 60, env, "twin", True),
            (HFILE, "_served_when_token_presented", tmo, env, "live", True),
            (HFILE_MUT, "_served_only_with_token", 120, {"C15_HMAX": "5", "C15_TMAX": "2"}, "canary", True)]
    if tier == "thorough":
        deep = {"C15_HMAX": "7", "C15_TMAX": "3"}
        jobs += [(HFILE, "_served_only_with_token", 1200, deep, "main", False),
                 (HFILE, "_served_when_token_presented", 1200, deep, "live", False)]
    ex = ThreadPoolExecutor(max_workers=1)
    futs_all = ex.submit(chx.run_jobs, [(j[0], j[1], j[2], j[3], j[5]) for j in jobs])
    # ---- part 2 while CrossHair runs
    root = tempfile.mkdtemp(prefix="c15-root-")
    served_ok = 0
    experiments = 0
    samples = []
    try:
        app0, c0, _ = build_state("none", root)
        rules = sorted(set(r.rule for r in app0.url_map.iter_rules() if r.endpoint != "static"))
        protected = [r for r in rules if r not in PUBLIC]
        # sanity: the right token is served somewhere (not vacuous)
        r = c0.get("/scenarios", headers=auth(TOKEN))
        if r.status_code != 200:
            rep.inconcl("sanity: GET /scenarios with the right token returned %d" % r.status_code)
        else:
            served_ok += 1
        for kind in ("none", "session", "locked", "persisted"):
            app, c, inst = build_state(kind, tempfile.mkdtemp(prefix="c15-s-", dir=root))
            reqs = [q for q in requests_for(app, inst) if q[0] not in PUBLIC]
            for (rule, method, url) in reqs:
                for (cn, cred) in credentials(TOKEN):
                    for bi, body in enumerate(BODIES):
                        if tier == "quick" and bi == 0 and cn not in ("absent", "wrong"):
                            continue
                        for warm in ((False, True) if (cn in ("absent", "wrong") and kind in ("none", "session")) else (False,)):
                            experiments += 1
                            res = probe(kind, rule, method, url, cn, cred, body, root, warm=warm)
                            if res:
                                rep.candidate("route:%s:%s%s" % (method, rule, ":warm" if warm else ""),
                                              {"kind": "route", "state": kind, "rule": rule, "method": method, "url": url, "cred_name": cn,
                                               "cred": cred, "body": bi, "warm": warm}, res)
                        if len(samples) < 4 and experiments % 97 == 1:
                            samples.append({"request": "%s %s" % (method, url), "credentials": cn, "state": kind, "refused_cleanly": res is None})
    finally:
        shutil.rmtree(root, ignore_errors=True)
    results = futs_all.result()
    ex.shutdown()
    confirmed = 0
    for (hf, fn, t, e, kind, req), r in zip(jobs, results):
        if kind == "twin":
            if r.verdict != chx.VERDICT_CEX:
                rep.inconcl("reachability twin gave no witness: %s" % r.message[:200])
        elif kind == "canary":
            rep.canary("token-prefix-accepted", r.verdict == chx.VERDICT_CEX)
        else:
            if r.verdict == chx.VERDICT_CONFIRMED:
                confirmed += 1
            elif r.verdict == chx.VERDICT_CEX and r.args and kind == "main":
                a = r.args
                case = {"kind": "decorator", "present": a.get("present", a.get("_pos0")), "header": a.get("header", a.get("_pos1")),
                        "token": a.get("token", a.get("_pos2"))}
                rep.candidate("decorator:served-without-token", case, "decorator counterexample %r" % (case,))
            else:
                chx.unfinished(rep, "%s (header <= %s, token <= %s)" % (fn, e.get("C15_HMAX"), e.get("C15_TMAX")), r, req)
        samples.append({"condition": fn + "/" + kind, "verdict": r.verdict, "seconds": round(r.seconds, 1)})
    rep.assume("decorator: header <= %d characters, token <= %d characters (symbolic unicode strings), presence flag symbolic" % (hm, tm),
               "route table: enumerated from the live app's url_map (finite); credential shapes are %d fixed boundary cases; four server states (no instance, session, locked session, session persisted but not in memory)" % len(credentials(TOKEN)),
               "warm variant (absent/wrong credentials, states none and session): the refused request follows the same request made with the token",
               "Flask/Werkzeug routing and header parsing are trusted")
    rep.coverage.update({"states": experiments + chx.STATS["conditions"], "transitions": max(1, confirmed + experiments - len(rep.cands)),
                         "traces_validated_against_impl": experiments, "samples": samples,
                         "rules_protected": protected, "crosshair": dict(chx.STATS),
                         "explanation": "states = refused-request experiments on the real Flask app + CrossHair conditions on the real decorator",
                         "exhaustive": True, "outside": "header strings longer than the bound; Werkzeug internals"})
    return rep.finish()
