"""Shared plumbing for the scenario-level checks (C06, C07, C08, C09, C16, C19, C20):
a small SD-DSL base model, the fresh-model oracle, symbolic settings in the value forms the
public API accepts (strings that the code under test eval()s), JSON/jsonpickle hooks that let
symbolic values cross serialisation boundaries, and readers for every result channel."""
import json
from fractions import Fraction

from vsym import sym as S, terms as T

EQS = ["S", "fin", "g", "g2", "h", "k", "c"]      # the two constants are requested as well (a constant changed by settings is itself reported)
BASE_POINTS2 = [[0.0, 4.0], [4.0, 0.0]]
BASE_POINTS = [[0.0, 1.0], [2.0, 3.0], [4.0, 2.0], [50.0, 2.0]]


def base_model(start=0.0, stop=4.0, dt=1.0, name="base", k=1.0, c=2.0, points=None, model_cls=None):
    """stock S(0)=5, S' = fin = max(0, k*g + c), g = lookup(time, 'pts')"""
    from BPTK_Py import Model
    from BPTK_Py import sd_functions as sd
    m = (model_cls or Model)(starttime=start, stoptime=stop, dt=dt, name=name)
    S_ = m.stock("S")
    fin = m.flow("fin")
    kk = m.constant("k")
    cc = m.constant("c")
    g = m.converter("g")
    g2 = m.converter("g2")
    h = m.converter("h")
    m.points["pts"] = [list(p) for p in (points or BASE_POINTS)]
    m.points["pts2"] = [list(p) for p in BASE_POINTS2]
    kk.equation = k
    cc.equation = c
    g.equation = sd.lookup(sd.time(), "pts")
    g2.equation = sd.lookup(sd.time(), "pts2")
    h.equation = sd.dt(m) * kk + sd.starttime(m)
    fin.equation = kk * g + cc
    S_.initial_value = 5.0
    S_.equation = fin
    return m


def grid(start, stop, dt):
    fs, fd, fe = Fraction(str(start)), Fraction(str(dt)), Fraction(str(stop))
    out, k = [], 0
    while fs + k * fd <= fe:
        out.append(float(fs + k * fd))
        k += 1
    return out


# ------------------------------------------------------------------ settings in API-accepted forms

def sym_const(name):
    """a scenario constant as a string (documented value type; the code evaluates it)"""
    return S.symstr(name)


def sym_points(prefix, xs=(0.0, 2.0, 4.0, 50.0)):
    """points as a string expression: [[x0, sym], ...] (documented: points may be given as a string)"""
    return "[" + ", ".join("[%r, %s]" % (x, S.symstr("%s_y%d" % (prefix, i))) for i, x in enumerate(xs)) + "]"


def points_value(prefix, xs=(0.0, 2.0, 4.0, 50.0)):
    """the same points as python objects (for the oracle)"""
    return [[x, S.v("%s_y%d" % (prefix, i))] for i, x in enumerate(xs)]


def resolve_const(v):
    """what a constant setting denotes (string -> evaluated, number -> itself)"""
    if isinstance(v, str):
        return eval(v)
    return v


def resolve_points(v):
    if isinstance(v, str):
        return eval(v)
    return v


def fresh_results(start, stop, dt, constants=None, points=None, equations=EQS, model_start=None):
    """ORACLE: a freshly built model carrying exactly these settings, evaluated on the grid
    start..stop step dt  ->  {equation: {t: value}}"""
    m = base_model(start, stop, dt, name="fresh")
    for n, v in (constants or {}).items():
        val = resolve_const(v)
        m.equations[n] = (lambda vv: (lambda t: vv))(val)
    for n, p in (points or {}).items():
        m.points[n] = resolve_points(p)
    m.reset_cache()
    out = {}
    for e in equations:
        out[e] = {t: m.memoize(e, t) for t in grid(start, stop, dt)}
    return out


# ------------------------------------------------------------------ serialisation hooks

_REG = {}


def _enc(obj):
    t = S.lift(obj) if not isinstance(obj, S.SymBool) else obj.t
    _REG[t.id] = obj
    return {"$sym": t.id}


def install_json_hooks(stubs):
    """json.JSONEncoder.default and a jsonpickle handler render a proxy as {"$sym": id}; both modules
    expose these hooks for user types - nothing inside them is patched."""
    import jsonpickle
    import jsonpickle.handlers
    old_default = json.JSONEncoder.default

    def default(self, o):
        if S.is_sym(o):
            return _enc(o)
        try:
            import numpy as np
            if isinstance(o, (np.integer,)):
                return int(o)
            if isinstance(o, (np.floating,)):
                return float(o)
        except Exception:
            pass
        return old_default(self, o)
    stubs.saved.append((json.JSONEncoder, "default", old_default, object()))
    json.JSONEncoder.default = default
    stubs.listed.append("json.JSONEncoder.default")

    class H(jsonpickle.handlers.BaseHandler):
        def flatten(self, obj, data):
            data["$sym"] = _enc(obj)["$sym"]          # keeps the py/object tag, so jsonpickle.loads restores the proxy
            return data

        def restore(self, data):
            return _REG[data["$sym"]]
    jsonpickle.handlers.register(S.SymReal, H)
    jsonpickle.handlers.register(S.SymBool, H)
    stubs.listed.append("jsonpickle handler for SymReal/SymBool")


def decode(x):
    """json-decoded structure -> proxies restored"""
    if isinstance(x, dict):
        if "$sym" in x and len([k for k in x if k not in ("$sym", "py/object")]) == 0:
            return _REG[x["$sym"]]
        return {k: decode(v) for k, v in x.items()}
    if isinstance(x, list):
        return [decode(v) for v in x]
    return x


def loads(text):
    if isinstance(text, bytes):
        text = text.decode()
    return decode(json.loads(text))


# ------------------------------------------------------------------ reading result channels

def from_df(df, manager, scenario, equations=EQS):
    """run_scenarios(return_format='df') -> {eq: {t: value}}"""
    out = {}
    for e in equations:
        col = None
        for cand in ("%s_%s_%s" % (manager, scenario, e), e):
            if cand in df.columns:
                col = cand
                break
        if col is None:
            out[e] = None
            continue
        out[e] = {float(t): df[col][t] for t in df.index}
    return out


def from_dict(res, manager, scenario, equations=EQS):
    """run_scenarios(return_format='dict') (series) or 'json' (decoded) -> {eq: {t: value}}"""
    out = {}
    try:
        eqs = res[manager][scenario]["equations"]
    except Exception:
        return {e: None for e in equations}
    for e in equations:
        if e not in eqs:
            out[e] = None
            continue
        ser = eqs[e]
        if hasattr(ser, "to_dict"):
            ser = ser.to_dict()
        out[e] = {float(t): v for t, v in ser.items()}
    return out


def from_step(res, manager, scenario, equations=EQS):
    """run_step result {manager: {scenario: {eq: {t: v}}}} -> {eq: {t: v}}"""
    out = {}
    try:
        d = res[manager][scenario]
    except Exception:
        return {e: None for e in equations}
    for e in equations:
        out[e] = {float(t): v for t, v in d[e].items()} if e in d else None
    return out


def merge_steps(step_results):
    out = {}
    for r in step_results:
        for e, tv in r.items():
            if tv is None:
                out.setdefault(e, None)
                continue
            out.setdefault(e, {})
            if out[e] is not None:
                out[e].update(tv)
    return out


def labels(res, eq="S"):
    d = res.get(eq)
    return sorted(d.keys()) if d else None
