"""C10 - arrayed equations compute what the same numpy operation computes.

Engine: vsym (Real mode).  The real setup_vector/setup_matrix/... , _handle_arrayed,
resolve_dimensions / clone_with_index / index_to_string and every arrayed term() are executed;
every array entry and scalar is a symbol; z3 decides entry == numpy-semantics reference for
all values.  Shapes are enumerated up to 3x3, indexed and named.
"""
import itertools
import operator
from fractions import Fraction

from vsym import terms as T, sym as S, solve, harness

PID = "C10"
MODULE = "checks.c10"

IDX = ["0", "1", "2"]
ROWN = ["x", "y", "z"]
COLN = ["p", "q", "r"]
OPS = {"add": operator.add, "sub": operator.sub, "mul": operator.mul, "div": operator.truediv}
AGGS = ["arr_sum", "arr_prod", "arr_mean", "arr_median", "arr_stddev", "arr_rank1", "arr_rank2", "arr_size"]


# shape: ("s",) scalar | ("v", n, named) | ("m", r, c, named)

def keys_of(shape, alt=False):
    """list of key tuples of an array of that shape; alt=True uses a different name set"""
    if alt == "perm":
        # the SAME names, declared in the reverse order (rows for matrices)
        ks = keys_of(shape, False)
        if shape[0] == "v":
            return ks[::-1]
        c = shape[2]
        rows = [ks[i * c:(i + 1) * c] for i in range(shape[1])]
        return [k for row in rows[::-1] for k in row]
    if shape[0] == "v":
        names = (COLN if alt else ROWN) if shape[2] else IDX
        return [(names[i],) for i in range(shape[1])]
    if shape[0] == "m":
        rn = (COLN if alt else ROWN) if shape[3] else IDX
        cn = (ROWN if alt else COLN) if shape[3] else IDX
        return [(rn[i], cn[j]) for i in range(shape[1]) for j in range(shape[2])]
    return [()]


def leafname(base, key):
    return base + "".join("[%s]" % k for k in key)


def setup(model, name, shape, alt=False):
    """declare an arrayed converter through the real API; returns element"""
    e = model.converter(name)
    if shape[0] == "s":
        e.equation = 1.0
        return e
    ks = keys_of(shape, alt)
    if shape[0] == "v":
        if shape[2]:
            e.setup_named_vector({k[0]: 1.0 + i for i, k in enumerate(ks)})
        else:
            e.setup_vector(shape[1], [1.0 + i for i in range(shape[1])])
    else:
        r, c = shape[1], shape[2]
        if shape[3]:
            rn = sorted(set(k[0] for k in ks), key=lambda s: [k[0] for k in ks].index(s))
            d = {}
            for k in ks:
                d.setdefault(k[0], {})[k[1]] = 1.0
            e.setup_named_matrix(d)
        else:
            e.setup_matrix([r, c], [[1.0 + i + j for j in range(c)] for i in range(r)])
    return e


def symbolise(model, name, shape, alt=False):
    for k in keys_of(shape, alt):
        ln = leafname(name, k)
        model.equations[ln] = (lambda nm: (lambda t: S.v(nm)))(ln)


def floatise(model, name, shape, env, alt=False):
    for k in keys_of(shape, alt):
        ln = leafname(name, k)
        model.equations[ln] = (lambda vv: (lambda t: vv))(float(env.get(ln, 1.0)))


def as_matrix(shape, get, base, alt=False):
    """nested python lists of leaf values, numpy layout"""
    ks = keys_of(shape, alt)
    if shape[0] == "s":
        return get(base)
    if shape[0] == "v":
        return [get(leafname(base, k)) for k in ks]
    r, c = shape[1], shape[2]
    return [[get(leafname(base, ks[i * c + j])) for j in range(c)] for i in range(r)]


# ------------------------------------------------------------------ numpy semantics, written out

def np_shape(shape):
    if shape[0] == "s":
        return ()
    if shape[0] == "v":
        return (shape[1],)
    return (shape[1], shape[2])


def elementwise(op, A, B, sa, sb):
    f = OPS[op]
    if sa == ():
        if sb == ():
            return f(A, B)
        if len(sb) == 1:
            return [f(A, b) for b in B]
        return [[f(A, b) for b in row] for row in B]
    if sb == ():
        if len(sa) == 1:
            return [f(a, B) for a in A]
        return [[f(a, B) for a in row] for row in A]
    if sa != sb:
        raise ValueError("shape mismatch")
    if len(sa) == 1:
        return [f(a, b) for a, b in zip(A, B)]
    return [[f(a, b) for a, b in zip(ra, rb)] for ra, rb in zip(A, B)]


def _sum(xs):
    r = xs[0]
    for x in xs[1:]:
        r = r + x
    return r


def np_dot(A, B, sa, sb):
    if sa == () or sb == ():
        return elementwise("mul", A, B, sa, sb)
    if len(sa) == 1 and len(sb) == 1:
        if sa != sb:
            raise ValueError("shape mismatch")
        return _sum([a * b for a, b in zip(A, B)])
    if len(sa) == 1 and len(sb) == 2:
        if sa[0] != sb[0]:
            raise ValueError("shape mismatch")
        return [_sum([A[k] * B[k][j] for k in range(sa[0])]) for j in range(sb[1])]
    if len(sa) == 2 and len(sb) == 1:
        if sa[1] != sb[0]:
            raise ValueError("shape mismatch")
        return [_sum([A[i][k] * B[k] for k in range(sa[1])]) for i in range(sa[0])]
    if sa[1] != sb[0]:
        raise ValueError("shape mismatch")
    return [[_sum([A[i][k] * B[k][j] for k in range(sa[1])]) for j in range(sb[1])] for i in range(sa[0])]


def flat(A, sa):
    if sa == ():
        return [A]
    if len(sa) == 1:
        return list(A)
    return [x for row in A for x in row]


def np_agg(name, A, sa, sym):
    xs = flat(A, sa)
    n = len(xs)
    if name == "arr_sum":
        return _sum(xs)
    if name == "arr_prod":
        r = xs[0]
        for x in xs[1:]:
            r = r * x
        return r
    if name == "arr_mean":
        return _sum(xs) / n
    if name == "arr_size":
        return sa[0]
    if sym:
        if name == "arr_median":
            s = S.sym_sorted(xs)
            return s[n // 2] if n % 2 else (s[n // 2 - 1] + s[n // 2]) / 2
        if name == "arr_stddev":
            m = _sum(xs) / n
            var = _sum([(x - m) * (x - m) for x in xs]) / n
            return S.sym_pow(var, 0.5)
        if name.startswith("arr_rank"):
            r = int(name[-1])
            s = S.sym_sorted(xs, reverse=True)
            return s[n - 1] if (r < 0 or r > n) else s[r - 1]
    else:
        import numpy as np
        if name == "arr_median":
            return float(np.median(xs))
        if name == "arr_stddev":
            return float(np.std(xs))
        if name.startswith("arr_rank"):
            r = int(name[-1])
            s = sorted(xs, reverse=True)
            return s[n - 1] if (r < 0 or r > n) else s[r - 1]
    raise ValueError(name)


# ------------------------------------------------------------------ cases

def all_shapes():
    out = []
    for named in (False, True):
        for n in (1, 2, 3):
            out.append(("v", n, named))
        for r in (1, 2, 3):
            for c in (1, 2, 3):
                out.append(("m", r, c, named))
    return out


def cases(tier):
    """case = (kind, op, shapeA, shapeB, altB, order)"""
    out = []
    shapes = all_shapes()
    S_ = ("s",)
    for op in OPS:
        for sh in shapes:
            out.append(("ew", op, sh, sh, False))               # same shape, same names
            out.append(("ew", op, sh, S_, False))               # array op scalar element
            out.append(("ew", op, S_, sh, False))               # scalar element op array
            out.append(("ewnum", op, sh, "right", False))       # array op 2.5
            out.append(("ewnum", op, sh, "left", False))        # 2.5 op array
            for inner in ("add", "sub", "mul", "div"):           # array op (compound scalar expression), both positions
                if sh in shapes[::2] or inner == "add":
                    out.append(("ewexpr", op, sh, ("right", inner), False))
                    out.append(("ewexpr", op, sh, ("left", inner), False))
            if sh[-1]:
                out.append(("ew", op, sh, sh, True))            # same shape, different names -> reject
                if sh[1] > 1:
                    out.append(("ew", op, sh, sh, "perm"))      # same names declared in another order -> by name or reject
        # mismatched shapes of the same rank
        for a in shapes:
            for b in shapes:
                if a != b and a[0] == b[0] and a[-1] == b[-1]:
                    out.append(("ew", op, a, b, False))
        # indexed vs named of the same size
        for a in shapes:
            if not a[-1]:
                b = a[:-1] + (True,)
                out.append(("ew", op, a, b, False))
    idx = [s for s in shapes if not s[-1]]
    for a in idx + [S_]:
        for b in idx + [S_]:
            if a == S_ and b == S_:
                continue
            out.append(("dot", "dot", a, b, False))
    for a in [s for s in shapes if s[-1]][:4]:
        out.append(("dot", "dot", a, a, False))                  # named: documented as unsupported -> reject
    for ag in AGGS:
        for sh in shapes:
            out.append(("agg", ag, sh, None, False))
    if tier == "thorough":
        # depth-2 compositions: (A op B) op2 C, aggregates/dot of element-wise results used as scalars
        for op in OPS:
            for op2 in OPS:
                for sh in [("v", 2, False), ("m", 2, 2, False), ("v", 3, True), ("m", 2, 3, False)]:
                    out.append(("ew2", (op, op2), sh, sh, False))
        for sh in [("v", 2, False), ("v", 3, False), ("m", 2, 2, False)]:
            for op in OPS:
                out.append(("aggop", op, sh, None, False))
                out.append(("dotop", op, sh, None, False))
    return out


def describe(case):
    kind, op, a, b, alt = case
    return "%s:%s A=%s B=%s%s" % (kind, op, a, b, " (same names, other order)" if alt == "perm" else " (different names)" if alt else "")


# ------------------------------------------------------------------ run one case

def build(case, sym, env=None):
    """returns (model, result element or exception, reference structure or ValueError)"""
    from BPTK_Py import Model
    kind, op, sa, sb, alt = case
    m = Model(starttime=0.0, stoptime=3.0, dt=1.0, name="c10")
    A = setup(m, "A", sa)
    B = None
    if kind in ("ew", "dot", "ew2"):
        B = setup(m, "B", sb, alt)
    C = setup(m, "C", sa) if kind == "ew2" else None
    Sx = setup(m, "S", ("s",)) if kind in ("aggop", "dotop", "ewexpr") else None
    for nm, sh, al in (("A", sa, False), ("B", sb, alt), ("C", sa, False), ("S", ("s",), False)):
        if (nm == "B" and B is None) or (nm == "C" and C is None) or (nm == "S" and Sx is None):
            continue
        if sym:
            symbolise(m, nm, sh, al)
        else:
            floatise(m, nm, sh, env, al)
    if sym:
        get = S.v
    else:
        get = lambda n: float(env.get(n, 1.0))
    a = as_matrix(sa, get, "A")
    # "perm": the reference aligns B on A's names (numpy after alignment), whatever order B was declared in
    b = as_matrix(sb, get, "B", alt is True) if B is not None else None
    na, nb = np_shape(sa), (np_shape(sb) if B is not None else None)
    num = 2.5
    # reference
    try:
        if kind == "ew":
            if alt is True or (sa[0] != "s" and sb[0] != "s" and sa[-1] != sb[-1]):
                raise ValueError("index names differ")
            ref = elementwise(op, a, b, na, nb)
            rs, rkeys = (na if na != () else nb), keys_of(sa if sa[0] != "s" else sb)
        elif kind == "ewnum":
            ref = elementwise(op, a, num, na, ()) if sb == "right" else elementwise(op, num, a, (), na)
            rs, rkeys = na, keys_of(sa)
        elif kind == "ewexpr":
            sc = OPS[sb[1]](get("S"), 0.5)
            ref = elementwise(op, a, sc, na, ()) if sb[0] == "right" else elementwise(op, sc, a, (), na)
            rs, rkeys = na, keys_of(sa)
        elif kind == "dot":
            if (sa[0] != "s" and sa[-1]) or (sb[0] != "s" and sb[-1]):
                raise ValueError("dot on named arrays is documented as unsupported")
            ref = np_dot(a, b, na, nb)
            if na == () or nb == ():
                rs = na if na != () else nb
            elif len(na) == 1 and len(nb) == 1:
                rs = ()
            elif len(na) == 1:
                rs = (nb[1],)
            elif len(nb) == 1:
                rs = (na[0],)
            else:
                rs = (na[0], nb[1])
            rkeys = [tuple(str(i) for i in k) for k in itertools.product(*[range(d) for d in rs])]
        elif kind == "agg":
            ref = np_agg(op, a, na, sym)
            rs, rkeys = (), [()]
        elif kind == "ew2":
            c = as_matrix(sa, get, "C")
            ref = elementwise(op[1], elementwise(op[0], a, b, na, nb), c, na, na)
            rs, rkeys = na, keys_of(sa)
        elif kind == "aggop":
            ref = OPS[op](get("S"), np_agg("arr_sum", a, na, sym))
            rs, rkeys = (), [()]
        elif kind == "dotop":
            if len(na) == 1:
                ref = OPS[op](get("S"), np_dot(a, a, na, na))
                rs, rkeys = (), [()]
            else:
                raise ValueError("skip")
    except ValueError as e:
        ref, rs, rkeys = e, None, None
    # implementation (REAL overloads and equation setter)
    try:
        R = m.converter("R")
        if kind == "ew":
            R.equation = OPS[op](A, B)
        elif kind == "ewnum":
            R.equation = OPS[op](A, num) if sb == "right" else OPS[op](num, A)
        elif kind == "ewexpr":
            R.equation = OPS[op](A, OPS[sb[1]](Sx, 0.5)) if sb[0] == "right" else OPS[op](OPS[sb[1]](Sx, 0.5), A)
        elif kind == "dot":
            R.equation = A.dot(B)
        elif kind == "agg":
            R.equation = A.arr_rank(int(op[-1])) if op.startswith("arr_rank") else getattr(A, op)()
        elif kind == "ew2":
            R.equation = OPS[op[1]](OPS[op[0]](A, B), C)
        elif kind == "aggop":
            R.equation = OPS[op](Sx, A.arr_sum())
        elif kind == "dotop":
            R.equation = OPS[op](Sx, A.dot(A))
    except S.SymbolicEscape:
        raise
    except Exception as e:
        R = e
    return m, R, ref, rs, rkeys


def entries(R, rs, rkeys, t=1.0):
    """{key: value}, reading the result the way users do (R[i][j](t)); raises on structure mismatch"""
    out = {}
    if rs == ():
        if R.arrayed and R._elements.vector_size() > 0:
            raise StructureMismatch("scalar expected, result is arrayed with %d members" % R._elements.vector_size())
        out[()] = R(t)
        return out
    if not R.arrayed:
        raise StructureMismatch("array %s expected, result is not arrayed" % (rs,))
    size = R._elements.matrix_size() if len(rs) == 2 else [R._elements.vector_size()]
    if list(size) != list(rs):
        raise StructureMismatch("shape %s expected, result has %s" % (rs, size))
    for k in rkeys:
        cur = R
        for part in k:
            cur = cur[part]
        out[k] = cur(t)
    return out


class StructureMismatch(Exception):
    pass


def ref_entry(ref, rs, rkeys, k):
    if rs == ():
        return ref
    i = rkeys.index(k)
    if len(rs) == 1:
        return ref[i]
    return ref[i // rs[1]][i % rs[1]]


def check_case(case, timeout_s):
    try:
        m, R, ref, rs, rkeys = build(case, True)
    except S.SymbolicEscape as e:
        return "unknown", "engine: %s" % e
    if isinstance(ref, ValueError) and str(ref) == "skip":
        return "rejected", "n/a"
    if isinstance(R, Exception):
        if isinstance(ref, ValueError):
            return "rejected", "definition rejected: %s" % type(R).__name__
        return "refused", "accepted by numpy semantics but rejected at definition: %r" % (R,)

    if isinstance(ref, ValueError):
        # operands do not match: any value is a violation; an exception on evaluation is fine
        def run_bad():
            m.reset_cache()
            vals = []
            try:
                names = list(R._elements.equations) if R.arrayed else []
                if not names:
                    vals.append(R(1.0))
                for n in names:
                    sub = R[n]
                    if sub.arrayed and sub._elements.vector_size() > 0:
                        for n2 in sub._elements.equations:
                            vals.append(sub[n2](1.0))
                    else:
                        vals.append(sub(1.0))
            except Exception as e:
                return ("exc", e)
            return ("vals", vals)
        try:
            paths = S.explore(run_bad, max_paths=16)
        except (S.PathCapExceeded, S.SolverUnknown, S.SymbolicEscape) as e:
            return "unknown", "explore: %r" % (e,)
        for p in paths:
            if p.exc is None and p.out[0] == "vals":
                return "violated", {"_mismatch_yields_values": [repr(x)[:60] for x in p.out[1]][:4]}
        return "rejected", "evaluation rejected"

    def run():
        m.reset_cache()
        try:
            return ("vals", entries(R, rs, rkeys))
        except StructureMismatch as e:
            return ("struct", str(e))
        except Exception as e:
            return ("exc", e)
    try:
        paths = S.explore(run, max_paths=16)
    except (S.PathCapExceeded, S.SolverUnknown, S.SymbolicEscape) as e:
        return "unknown", "explore: %r" % (e,)
    for p in paths:
        if p.exc is not None:
            return "unknown", "harness: %r" % (p.exc,)
        if p.out[0] == "struct":
            return "violated", {"_structure": p.out[1]}
        if p.out[0] == "exc":
            return "refused", "accepted at definition but evaluation raised %r" % (p.out[1],)
        for k, val in p.out[1].items():
            try:
                impl = S.term_of(val)
            except TypeError:
                return "violated", {"_nonnumeric": repr(val)}
            rf = S.term_of(ref_entry(ref, rs, rkeys, k))
            v = solve.prove_equal(impl, rf, p.pc, timeout_s=timeout_s)
            if v.status == "violated":
                mdl = solve.complete_model(v.model, impl, rf, *p.pc)
                mdl["_entry"] = list(k)
                return "violated", mdl
            if v.status == "unknown":
                return "unknown", v.detail
    return "holds", None


# ------------------------------------------------------------------ arrayed stocks (Element._handle_arrayed, stock branch)

def stock_case(shape, form, sym, env=None):
    """an arrayed stock integrating an arrayed flow element (form 'el') or an arrayed operator (form = op name);
    returns list of (key, t, value, reference)"""
    from BPTK_Py import Model
    m = Model(starttime=0.0, stoptime=3.0, dt=1.0, name="c10s")
    A, B = setup(m, "A", shape), setup(m, "B", shape)
    St = m.stock("St")
    ks = keys_of(shape)
    if shape[0] == "v":
        if shape[2]:
            St.setup_named_vector({k[0]: 1.0 for k in ks})
        else:
            St.setup_vector(shape[1], [1.0] * shape[1])
    else:
        if shape[3]:
            d = {}
            for k in ks:
                d.setdefault(k[0], {})[k[1]] = 1.0
            St.setup_named_matrix(d)
        else:
            St.setup_matrix([shape[1], shape[2]], [[1.0] * shape[2] for _ in range(shape[1])])
    get = (lambda n: S.v(n)) if sym else (lambda n: float((env or {}).get(n, 1.0)))
    for nm in ("A", "B"):
        (symbolise if sym else (lambda mm, n, sh: floatise(mm, n, sh, env or {})))(m, nm, shape)
    if form == "el":
        F = m.flow("F")
        F.equation = A * B
        St.equation = F
        rate = lambda k: S.sym_max(0, get(leafname("A", k)) * get(leafname("B", k)))
    else:
        St.equation = OPS[form](A, B)
        rate = lambda k: OPS[form](get(leafname("A", k)), get(leafname("B", k)))
    out = []
    for k in ks:
        cur = St
        for part in k:
            cur = cur[part]
        for t in (0.0, 1.0, 2.0):
            out.append((k, t, cur(t), 1.0 + t * rate(k)))
    return out


def check_stock_case(shape, form, timeout_s):
    def run():
        try:
            return ("ok", stock_case(shape, form, True))
        except Exception as e:
            return ("exc", e)
    try:
        paths = S.explore(run, max_paths=16)
    except (S.PathCapExceeded, S.SolverUnknown, S.SymbolicEscape) as e:
        return "unknown", "explore: %r" % (e,)
    for p in paths:
        if p.exc is not None:
            return "unknown", "harness: %r" % (p.exc,)
        if p.out[0] == "exc":
            return "refused", "raised %r" % (p.out[1],)
        for k, t, val, ref in p.out[1]:
            v = solve.prove_equal(S.term_of(val), S.term_of(ref), p.pc, timeout_s=timeout_s)
            if v.status == "violated":
                mdl = solve.complete_model(v.model, S.term_of(val), S.term_of(ref))
                mdl["_entry"] = list(k) + [t]
                return "violated", mdl
            if v.status == "unknown":
                return "unknown", v.detail
    return "holds", None


# ------------------------------------------------------------------ replay on the real code

ALT = [1.5, 2.25, -0.75, 3.5, 0.6, 4.2, -1.3, 2.8, 0.9, 5.1, 1.1, -2.4, 3.3, 0.35, 6.0, 1.9, 2.1, 0.45, 7.3, -0.2]


def _tup(x):
    if isinstance(x, list):
        return tuple(_tup(y) for y in x)
    return x


def replay(case_json):
    if case_json.get("kind") == "stock":
        shape, form = _tup(case_json["shape"]), case_json["form"]
        for env in (case_json.get("env", {}), {"A[0]": 2.0, "B[0]": -3.0, "A[x]": 2.0, "B[x]": -3.0, "A[0][0]": 2.0, "B[0][0]": -3.0, "A[x][p]": 2.0, "B[x][p]": -3.0}):
            try:
                vals = stock_case(shape, form, False, env)
            except Exception as e:
                return False, "arrayed stock %s %s: raised %r (refusing loudly is allowed)" % (shape, form, e)
            for k, t, val, ref in vals:
                if abs(float(val) - float(ref)) > 1e-9 * (1 + abs(float(ref))):
                    return True, "arrayed stock %s with %s: entry %s at t=%s is %r, Euler gives %r" % (shape, form, k, t, float(val), float(ref))
        return False, "arrayed stock %s %s follows Euler" % (shape, form)
    case = _tup(case_json["case"])
    envs = [case_json.get("env", {})]
    names = []
    for nm, sh, alt in (("A", case[2], False), ("B", case[3], case[4]), ("C", case[2], False)):
        if isinstance(sh, tuple):
            names += [leafname(nm, k) for k in keys_of(sh, alt)]
    names.append("S")
    for off in (0, 3, 7):
        envs.append({n: ALT[(i + off) % len(ALT)] for i, n in enumerate(names)})
    for env in envs:
        m, R, ref, rs, rkeys = build(case, False, env)
        if isinstance(R, Exception):
            continue
        if isinstance(ref, ValueError):
            try:
                names_ = list(R._elements.equations) if R.arrayed else []
                vals = [R(1.0)] if not names_ else []
                for n in names_:
                    sub = R[n]
                    if sub.arrayed and sub._elements.vector_size() > 0:
                        vals += [sub[n2](1.0) for n2 in sub._elements.equations]
                    else:
                        vals.append(sub(1.0))
            except Exception:
                continue
            return True, "%s: operands do not match, yet values %r are produced" % (describe(case), vals[:4])
        try:
            got = entries(R, rs, rkeys)
        except StructureMismatch as e:
            return True, "%s: %s" % (describe(case), e)
        except Exception:
            continue
        for k, val in got.items():
            want = ref_entry(ref, rs, rkeys, k)
            try:
                fv, fw = float(val), float(want)
            except Exception:
                return True, "%s entry %s: non-numeric %r" % (describe(case), k, val)
            if fv != fv or fw != fw:
                continue
            if abs(fv - fw) > 1e-9 * (1 + abs(fw)):
                return True, "%s entry %s: DSL %r, numpy semantics %r (env %s)" % (describe(case), k, fv, fw, env)
    return False, "%s: agrees on %d assignments" % (describe(case), len(envs))


# ------------------------------------------------------------------ canaries

def canary_dot_transposed():
    import BPTK_Py.sddsl.operators as ops
    orig = ops.DotOperator.term
    src_a, src_b = "[self.index[0], k]", "[k, self.index[0]]"

    def bad(self, time="t"):
        # matrix*matrix with the left operand read transposed
        if self.index is not None and not isinstance(self.index, int) and len(self.index) == 2:
            d1 = ops._get_element_dimensions(self.element_1)
            if d1 != -1 and len(d1) == 2 and d1[1] != 0 and d1[0] == d1[1]:
                res = ""
                for k in range(d1[1]):
                    res += "({}) * ({}) + ".format(self.element_1[k][self.index[0]].term(time),
                                                   self.element_2[k][self.index[1]].term(time))
                return res[:-3]
        return orig(self, time)
    ops.DotOperator.term = bad
    try:
        st, info = check_case(("dot", "dot", ("m", 2, 2, False), ("m", 2, 2, False), False), 10)
    finally:
        ops.DotOperator.term = orig
    return st == "violated"


def canary_size_check_removed():
    """both shape guards of '+' switched off: a 2-vector plus a 3-vector then yields values"""
    import BPTK_Py.sddsl.operators as ops
    orig = ops.BinaryOperator.__init__
    orig_rd = ops.AdditionOperator.resolve_dimensions

    def bad(self, element_1, element_2, index=None, allow_different_sized_arrays=False):
        orig(self, element_1, element_2, index, True)

    def bad_rd(self):
        d1 = ops._get_element_dimensions(self.element_1)
        return d1 if d1 != -1 else ops._get_element_dimensions(self.element_2)
    ops.BinaryOperator.__init__ = bad
    ops.AdditionOperator.resolve_dimensions = bad_rd
    try:
        st, info = check_case(("ew", "add", ("v", 2, False), ("v", 3, False), False), 10)
    finally:
        ops.BinaryOperator.__init__ = orig
        ops.AdditionOperator.resolve_dimensions = orig_rd
    return st == "violated"


# ------------------------------------------------------------------ main

def run(tier):
    import BPTK_Py.sddsl.operators as ops
    import BPTK_Py.sddsl.element as el
    rep = harness.Report(PID, tier, "translation_validation", MODULE)
    rep.encoded(el.Element._handle_arrayed, el.Element.setup_vector, el.Element.setup_matrix,
                el.Element.setup_named_vector, el.Element.setup_named_matrix, ops.ArrayedEquation.__getitem__,
                ops.ArrayedEquation.__setitem__, ops.ArrayedEquation.matrix_size, ops.BinaryOperator.__init__,
                ops.AdditionOperator.term, ops.AdditionOperator.resolve_dimensions, ops.AdditionOperator.clone_with_index,
                ops.SubtractionOperator.term, ops.MultiplicationOperator.term, ops.DivisionOperator.term,
                ops.NumericalMultiplicationOperator.term, ops.DotOperator.term, ops.DotOperator.resolve_dimensions,
                ops._array_resolve, ops._matrix_element_to_string, ops.ArraySumOperator.term,
                ops.ArrayProductOperator.term, ops.ArrayMeanOperator.term, ops.ArrayMedianOperator.term,
                ops.ArrayStandardDeviationOperator.term, ops.ArrayRankOperator.term, ops.ArraySizeOperator.term,
                ops._get_element_dimensions)
    timeout = 20 if tier == "quick" else 120
    cs = cases(tier)
    counts = {"holds": 0, "violated": 0, "rejected": 0, "refused": 0, "unknown": 0}
    samples, violated, refused = [], [], []
    stubs = harness.Stubs()
    harness.install_sd_stubs(stubs)
    try:
        for c in cs:
            st, info = check_case(c, timeout)
            counts[st] += 1
            if st == "violated":
                violated.append((c, info))
            elif st == "unknown":
                rep.inconcl("%s: %s" % (describe(c), info))
            elif st == "refused":
                refused.append("%s: %s" % (describe(c), info))
            if len(samples) < 14 and (len(samples) < 6 or st not in ("holds", "rejected")):
                samples.append({"case": describe(c), "verdict": st, "info": str(info)[:160]})
        stock_cases = [(sh, f) for sh in all_shapes() if (tier == "thorough" or sh[1] <= 2) for f in ("el", "add", "sub", "mul", "div")]
        for sh, f in stock_cases:
            st, info = check_stock_case(sh, f, timeout)
            counts[st] += 1
            if st == "violated":
                env = {k: float(v) for k, v in info.items() if isinstance(v, (Fraction, int, float)) and not isinstance(v, bool)}
                rep.candidate("stock:%s:%s" % (f, _shape_class(sh)), {"kind": "stock", "shape": sh, "form": f, "env": env},
                              "arrayed stock %s integrating %s: entry %s differs from Euler" % (sh, f, info.get("_entry")))
            elif st == "unknown":
                rep.inconcl("arrayed stock %s %s: %s" % (sh, f, info))
        rep.canary("DotOperator-left-operand-transposed", canary_dot_transposed())
        rep.canary("BinaryOperator-size-check-removed", canary_size_check_removed())
    finally:
        stubs.restore()
    for c, info in violated:
        kind, op, sa, sb, alt = c
        sig = "%s:%s:%s:%s%s" % (kind, op if isinstance(op, str) else "-".join(op), _shape_class(sa), _shape_class(sb), ":permnames" if alt == "perm" else ":altnames" if alt else "")
        env = {k: float(v) for k, v in info.items() if isinstance(v, (Fraction, int, float)) and not isinstance(v, bool)}
        rep.candidate(sig, {"case": c, "env": env}, "%s: %s" % (describe(c), {k: v for k, v in info.items() if k.startswith("_")} or "entry differs from numpy semantics"))
    rep.notes.append("accepted-by-numpy-but-refused-by-DSL cases (not violations; the property speaks about accepted equations): %d" % len(refused))
    rep.notes.extend(refused[:10])
    rep.assume("array entries and scalars are reals; sqrt in stddev is the same uninterpreted pow(x,1/2) on both sides",
               "median/rank via ITE sorting network (Python sorted semantics)", "shapes <= 3x3, vectors <= 3, indexed and named",
               "time fixed at t=1 for converters; arrayed stocks (integrating an arrayed flow or an arrayed operator) at t=0,1,2 against Euler")
    rep.coverage.update({"programs": len(cs) + len(stock_cases), "arrayed_stock_cases": len(stock_cases), "disagreements_checked": len(violated), "samples": samples, "verdicts": counts,
                         "exhaustive": True,
                         "bounds": "all shapes up to 3x3 (indexed+named) x {+,-,*,/} x operand forms; dot for every indexed shape pair incl. scalars; 8 aggregates; all same-rank mismatches; named operands with the same names declared in reverse order (by-name alignment or rejection)",
                         "outside": "3-dimensional arrays, shapes > 3x3"})
    return rep.finish()


def _shape_class(sh):
    if sh is None:
        return "-"
    if isinstance(sh, str):
        return sh
    if sh[0] == "s":
        return "scalar"
    return ("named-" if sh[-1] else "") + ("vector" if sh[0] == "v" else "matrix")
