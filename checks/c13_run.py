"""C13 part 2: the dataframe, dict and JSON that bptk.run_scenarios returns for agents / states / properties.

A real ABM scenario (Model subclass, SimultaneousScheduler, DataCollector) is registered through
bptk.register_scenario_manager(type 'abm'); its agents carry symbolic property values and switch states at
fixed times.  The real HybridRunner.run_scenario assembles df / dict / json; every cell must carry the
aggregate of exactly the agents of that type in that state at that time (specification as in part 1), with
zero where the state is empty at that time."""
import json

from vsym import terms as T, sym as S, solve
from checks import scen

STATES = ["active", "idle"]
AGG = ["total", "max", "min", "mean"]


DT = [1.0]          # the scenario's dt (module-level so that the agents' act() sees it); recorded times are 0, dt, 2*dt


def plan_state(i, t, variant):
    """state of agent i at time t"""
    t = round(t / DT[0])
    if variant == 0:
        return "active" if (i + int(t)) % 2 == 0 else "idle"
    if variant == 1:
        return "active" if t < 1 or i == 0 else "idle"          # 'idle' is empty at t=0
    if variant == 3:
        return "active" if (i + int(t)) % 2 == 0 else "idle"    # as variant 0; the last agent is deleted during the step at t=1
    return "active"                                             # 'idle' never populated


def make_bptk(n, variant, values):
    import BPTK_Py
    from BPTK_Py import Model, Agent

    class A(Agent):
        def initialize(self):
            self.agent_type = "A"
            self.state = plan_state(self.id, 0.0, variant)
            self.set_property("p", {"type": "Double", "value": 0.0})
            self.properties["p"]["value"] = values("%s_p%d" % (self.model.name, self.id))
            self.set_property("label", {"type": "String", "value": "x"})

        def act(self, time, round_no, step_no):
            self.state = plan_state(self.id, time + 1, variant)   # state for the next recorded time... recorded after act
            self.state = plan_state(self.id, time, variant)
            if variant == 3 and self.id == 0 and round(time / DT[0]) == 1:
                # the first agent removes the last one of its population while the step is running
                self.model.delete_agent(max(a.id for a in self.model.agents))

    class M(Model):
        def instantiate_model(self):
            self.register_agent_factory("A", lambda agent_id, model, properties: A(agent_id, model, properties, "A"))

    from BPTK_Py import DataCollector, SimultaneousScheduler
    # registered the documented way: a model instance that brings its own scheduler and data collector
    m = M(name="abm", scheduler=SimultaneousScheduler(), data_collector=DataCollector())
    m.instantiate_model()
    b = BPTK_Py.bptk()
    b.register_scenario_manager({"abm": {"type": "abm", "model": m, "scenarios": {
        "s": {"runspecs": {"starttime": 0, "stoptime": STOP(), "dt": DT[0]}, "properties": {}, "agents": [{"name": "A", "count": n}]},
        "s2": {"runspecs": {"starttime": 0, "stoptime": STOP(), "dt": DT[0]}, "properties": {}, "agents": [{"name": "A", "count": n + 1}]}}}})
    return b


def scenarios_of(n):
    """two scenarios of ONE manager built from one model instance, with different populations"""
    return [("s", n), ("s2", n + 1)]


def expected_members(n, variant, t, state):
    live = range(n - 1) if (variant == 3 and round(t / DT[0]) >= 1 and n > 1) else range(n)      # variant 3: the last agent is gone from the second recorded time on
    return [i for i in live if plan_state(i, t, variant) == state]


def STOP():
    """agent-based runs have integer start and stop times (rounds); dt = 1: rounds 0..2, a fractional dt: rounds 0..1 (stop = 0 is outside: the progress computation divides by it)"""
    return 2 if DT[0] == 1.0 else 1


def times():
    """the first three recorded times"""
    return [0.0, float(DT[0]), 2.0 * DT[0]]


def run(n, variant, fmt, values):
    b = make_bptk(n, variant, values)
    states = ["active", "idle"] if variant != 2 else ["active"]
    res = b.run_scenarios(scenarios=["s", "s2"], scenario_managers=["abm"], agents=["A"], agent_states=states,
                          agent_properties=["p"], agent_property_types=AGG, return_format=fmt)
    cnt = make_bptk(n, variant, values).run_scenarios(scenarios=["s", "s2"], scenario_managers=["abm"], agents=["A"], agent_states=states,
                                                       return_format=fmt)
    return res, cnt, states


def cell(res, fmt, state, kind, t, sc="s"):
    if fmt == "df":
        col = "abm_%s_A_%s_p_%s" % (sc, state, kind)
        return res[col][t]
    if fmt == "json":
        res = scen.loads(res) if isinstance(res, str) else res
    d = res["abm"][sc]["agents"]["A"][state]["properties"]["p"][kind]
    if hasattr(d, "to_dict"):
        d = d.to_dict()
    for k, v in d.items():
        if float(k) == t:
            return v
    raise KeyError(t)


def count_cell(cnt, fmt, state, t, sc="s"):
    if fmt == "df":
        return cnt["abm_%s_A_%s" % (sc, state)][t]
    if fmt == "json":
        cnt = scen.loads(cnt) if isinstance(cnt, str) else cnt
    d = cnt["abm"][sc]["agents"]["A"][state]
    if hasattr(d, "to_dict"):
        d = d.to_dict()
    for k, v in d.items():
        if float(k) == t:
            return v
    raise KeyError(t)


def check(n, variant, fmt, timeout_s, spec_cell, dt=1.0):
    """-> None or (what, model)"""
    DT[0] = 1 if dt == 1.0 else dt
    def go():
        try:
            return ("ok",) + run(n, variant, fmt, S.v)
        except Exception as e:
            import traceback
            return ("exc", e, traceback.format_exc()[-500:])
    try:
        paths = S.explore(go, max_paths=64)
    except (S.PathCapExceeded, S.SolverUnknown, S.SymbolicEscape) as e:
        return "UNKNOWN explore: %r" % (e,), None
    for p in paths:
        if p.exc is not None:
            return "UNKNOWN harness %r" % (p.exc,), None
        if p.out[0] == "exc":
            return "run_scenarios(agents=..., return_format=%r) raised %r" % (fmt, p.out[1]), {}
        res, cnt, states = p.out[1], p.out[2], p.out[3]
        for sc, ns in scenarios_of(n):
          for t in times():
            for st in states:
                members = expected_members(ns, variant, t, st)
                try:
                    c = count_cell(cnt, fmt, st, t, sc)
                except Exception as e:
                    return "%s: scenario %s: count of state %s at t=%s is missing (%r)" % (fmt, sc, st, t, e), {}
                if S.is_sym(c) or float(c) != float(len(members)):
                    return "%s: scenario %s: count of state %s at t=%s is %r, expected %d" % (fmt, sc, st, t, c, len(members)), {}
                for kind in AGG:
                    try:
                        v = cell(res, fmt, st, kind, t, sc)
                    except Exception as e:
                        return "%s: scenario %s: %s_p_%s at t=%s is missing (%r)" % (fmt, sc, st, kind, t, e), {}
                    if not members:
                        if S.is_sym(v) or float(v) != 0.0:
                            return "%s: scenario %s: %s_p_%s at t=%s is %r although the state is empty" % (fmt, sc, st, kind, t, v), {}
                        continue
                    f = spec_cell(v, [S.v("%s_p%d" % (sc, i)) for i in members], len(members), kind)
                    r = solve.prove(f, p.pc, timeout_s=timeout_s)
                    if r.status == "violated":
                        return "%s: scenario %s: %s_p_%s at t=%s is not the %s over the agents %s of that scenario" % (fmt, sc, st, kind, t, kind, members), solve.complete_model(r.model, f)
                    if r.status == "unknown":
                        return "UNKNOWN " + r.detail, None
    return None


def replay(case):
    n, variant, fmt = case["n"], case["variant"], case["fmt"]
    DT[0] = 1 if float(case.get("dt", 1.0)) == 1.0 else float(case.get("dt", 1.0))
    env = case.get("env", {})

    def values(name):
        if name in env:
            return float(env[name])
        sc, _, i = name.rpartition("_p")
        return [1.0, -2.5, 0.0, 3.0, -1.0][int(i) % 5] + (10.0 if sc == "s2" else 0.0)
    try:
        res, cnt, states = run(n, variant, fmt, values)
    except Exception as e:
        return True, "run_scenarios for agents raised %r" % (e,)
    for sc, ns in scenarios_of(n):
      for t in times():
        for st in states:
            members = expected_members(ns, variant, t, st)
            vals = [values("%s_p%d" % (sc, i)) for i in members]
            try:
                c = float(count_cell(cnt, fmt, st, t, sc))
            except Exception as e:
                return True, "%s: scenario %s: count of %s at t=%s missing (%r)" % (fmt, sc, st, t, e)
            if c != len(members):
                return True, "%s: scenario %s: count of %s at t=%s is %r, expected %d" % (fmt, sc, st, t, c, len(members))
            want = {"total": sum(vals), "max": max(vals) if vals else 0.0, "min": min(vals) if vals else 0.0,
                    "mean": (sum(vals) / len(vals)) if vals else 0.0}
            for kind in AGG:
                try:
                    got = float(cell(res, fmt, st, kind, t, sc))
                except Exception as e:
                    return True, "%s: scenario %s: %s_p_%s at t=%s missing (%r)" % (fmt, sc, st, kind, t, e)
                if abs(got - want[kind]) > 1e-9 * (1 + abs(want[kind])):
                    return True, "%s: scenario %s: %s_p_%s at t=%s is %r, expected %r (values %s)" % (fmt, sc, st, kind, t, got, want[kind], vals)
    return False, "run_scenarios(%s) for %d agents, variant %d: aggregates correct" % (fmt, n, variant)
