"""C20 - after a server crash, externalised sessions continue as if nothing happened.

Engine: vsym.  Session histories (settings at arbitrary steps, symbolic values) run through the REAL
handlers with a FileAdapter; the crash point k in 0..N is enumerated exhaustively: the server object is
discarded after k steps and a new BptkServer is constructed on the same directory (the REAL start-up
load, lazy restore, reconstruct_instance, _set_state, run_scenario_step on a model without live
simulation).  The responses of the remaining steps must equal - as terms, for all setting values - those
of the uninterrupted run, and every requested equation must be present.  Torn writes are a
nondeterministic I/O stub: the state file of one instance is replaced by each outcome class of a damaged
file; the constructor must not raise and the other instance must be restored."""
import copy
import itertools
import json
import os
import shutil
import tempfile
from fractions import Fraction

from vsym import terms as T, sym as S, solve, harness
from checks import scen

PID = "C20"
MODULE = "checks.c20"
START, DT = 0.0, 1.0
DAMAGE = {"truncated": lambda s: s[:max(1, len(s) // 2)], "empty": lambda s: "", "wrong-shape": lambda s: "[1, 2, 3]",
          "not-json": lambda s: "\x00\x01garbage", "missing-key": lambda s: '{"data": {"instance_id": "x"}}'}


_START = [START]
_DT = [DT]


def factory():
    import BPTK_Py
    m = scen.base_model(_START[0], _START[0] + 6.0 * _DT[0], _DT[0], name="c20")
    b = BPTK_Py.bptk()
    b.register_scenario_manager({"sm": {"model": m}})
    b.register_scenarios(scenario_manager="sm", scenarios={"A": {}})
    return b


def histories(tier):
    kinds = ["set_k", "set_c", "none"]
    out = []
    for n in (1, 2, 3):
        for h in itertools.product(kinds, repeat=n):
            if any(x != "none" for x in h):
                out.append(list(h))
    if tier == "thorough":
        out += [list(h) for h in itertools.product(kinds, repeat=4) if h[0] != "none"]
        more = kinds + ["steps2", "stream_abort", "rebegin"]
        out += [list(h) for h in itertools.product(more, repeat=3)]
        out += [list(h) + ["none"] for h in itertools.product(more, repeat=4)][::3]
    else:
        out += [["set_k", "none", "set_c", "none"], ["set_c", "set_k", "none", "none"]]
    # the other stepping requests: run-steps (2 steps) and a stream the client abandons after its first step
    out += [["steps2", "none"], ["set_k", "steps2", "none"], ["stream_abort", "none"], ["none", "stream_abort", "none"],
            ["set_k", "stream_abort", "set_c", "none"], ["stream_abort", "steps2", "none"]]
    # a second session begun on the same instance (the first one is ended by it)
    out += [["none", "rebegin", "none"], ["none", "none", "rebegin", "none"], ["set_k", "none", "rebegin", "none", "none"],
            ["set_k", "rebegin", "set_c", "none"]]
    # a session begun WITH settings: they must survive a crash that comes before the first step, too
    out += [["rebegin_set", "none"], ["rebegin_set", "none", "none"], ["none", "rebegin_set", "set_k", "none"]]
    return out


class _Resp(object):
    def __init__(self, status_code, parsed):
        self.status_code, self.parsed = status_code, parsed


def body(r):
    if hasattr(r, "parsed"):
        return r.parsed
    return scen.loads(r.data) if r.status_code == 200 else r.data.decode(errors="replace")


def step_request(c, inst, i, kind, mode, env):
    if kind == "none":
        return c.post("/%s/run-step" % inst)
    if kind == "rebegin_set":
        name = "v%d" % i
        v = scen.sym_const(name) if mode == "sym" else float((env or {}).get(name, 2.0 + 0.75 * i))
        r = c.post("/%s/begin-session" % inst, data=json.dumps({"scenario_managers": ["sm"], "scenarios": ["A"], "equations": scen.EQS,
                                                                 "settings": {"sm": {"A": {"constants": {"c": v}}}}}),
                   content_type="application/json")
        return _Resp(r.status_code, "session begun with settings")
    if kind == "rebegin":
        r = c.post("/%s/begin-session" % inst, data=json.dumps({"scenario_managers": ["sm"], "scenarios": ["A"], "equations": scen.EQS}),
                   content_type="application/json")
        return _Resp(r.status_code, "session begun")
    if kind == "steps2":
        r = c.post("/%s/run-steps" % inst, data=json.dumps({"numberSteps": 2, "settings": {}}), content_type="application/json")
        if r.status_code != 200:
            return r
        merged = {}
        for one in scen.loads(r.data):
            if not isinstance(one, dict) or "msg" in one or "error" in one:
                continue                                    # "stop time reached" entries of a run-steps beyond the end
            for mg, sc in one.items():
                if not isinstance(sc, dict):
                    continue
                for sn, eqs in sc.items():
                    for e, tv in eqs.items():
                        merged.setdefault(mg, {}).setdefault(sn, {}).setdefault(e, {}).update(tv)
        return _Resp(200, merged)
    if kind == "stream_abort":
        r = c.post("/%s/stream-steps" % inst, buffered=False)
        if r.status_code != 200:
            return r
        it = iter(r.response)
        try:
            for ch in it:
                ch = ch.decode() if isinstance(ch, bytes) else ch
                if ch.lstrip(",").startswith("{"):
                    break                                  # the first step arrived: the client goes away
        finally:
            close = getattr(r.response, "close", None) or getattr(it, "close", None)
            if close:
                close()
            r.close()
        return _Resp(200, "stream abandoned after its first step")
    name = "v%d" % i
    v = scen.sym_const(name) if mode == "sym" else float((env or {}).get(name, 2.0 + 0.75 * i))
    const = "k" if kind == "set_k" else "c"
    return c.post("/%s/run-step" % inst, data=json.dumps({"settings": {"sm": {"A": {"constants": {const: v}}}}}), content_type="application/json")


def run_case(hist, k, mode, env=None, two_instances=False, start=START, dt=DT):
    """-> (responses after the restart, responses of the uninterrupted run for the same steps)"""
    _START[0] = start
    _DT[0] = dt
    from BPTK_Py.server import BptkServer
    from BPTK_Py.externalstateadapter import FileAdapter
    d = tempfile.mkdtemp(prefix="c20-", dir=os.environ.get("VCHECK_SCRATCH"))
    try:
        def begin(c):
            inst = json.loads(c.post("/start-instance", data=json.dumps({"timeout": {"hours": 1}}), content_type="application/json").data)["instance_uuid"]
            c.post("/%s/begin-session" % inst, data=json.dumps({"scenario_managers": ["sm"], "scenarios": ["A"], "equations": scen.EQS}),
                   content_type="application/json")
            return inst
        app1 = BptkServer(__name__, factory, FileAdapter(False, d))
        c1 = app1.test_client()
        inst = begin(c1)
        other = begin(c1) if two_instances else None
        if other:
            c1.post("/%s/run-step" % other)
        # (k == 0: the crash comes right after begin-session, which externalises the session itself)
        for i in range(k):
            step_request(c1, inst, i, hist[i], mode, env)
        del app1, c1                                   # the crash: the process state is gone, the directory stays
        app2 = BptkServer(__name__, factory, FileAdapter(False, d))
        c2 = app2.test_client()
        after = []
        for i in range(k, len(hist)):
            r = step_request(c2, inst, i, hist[i], mode, env)
            after.append((r.status_code, body(r)))
        # uninterrupted reference on a fresh server without any adapter
        app3 = BptkServer(__name__, factory)
        c3 = app3.test_client()
        inst3 = begin(c3)
        ref = []
        for i in range(len(hist)):
            r = step_request(c3, inst3, i, hist[i], mode, env)
            if i >= k:
                ref.append((r.status_code, body(r)))
        return after, ref
    finally:
        shutil.rmtree(d, ignore_errors=True)


def compare(after, ref, pc, timeout_s, numeric=False):
    for n, ((s1, b1), (s2, b2)) in enumerate(zip(after, ref)):
        if s1 != s2:
            return "step %d after the restart: status %s, uninterrupted %s" % (n, s1, s2), None
        if s1 != 200:
            continue
        r1, r2 = scen.from_step(b1, "sm", "A"), scen.from_step(b2, "sm", "A")
        for e in scen.EQS:
            if r2.get(e) is None:
                continue
            if r1.get(e) is None:
                return "step %d after the restart: equation %s is missing from the result" % (n, e), None
            if sorted(r1[e]) != sorted(r2[e]):
                return "step %d after the restart reports times %s, uninterrupted %s" % (n, sorted(r1[e]), sorted(r2[e])), None
            for t in r2[e]:
                if numeric:
                    a, b = float(r1[e][t]), float(r2[e][t])
                    if abs(a - b) > 1e-9 * (1 + abs(b)):
                        return "step %d after the restart: %s(%s) = %r, uninterrupted session gives %r" % (n, e, t, a, b), None
                else:
                    ta, tb = S.term_of(r1[e][t]), S.term_of(r2[e][t])
                    v = solve.prove_equal(ta, tb, pc, timeout_s=timeout_s)
                    if v.status == "violated":
                        lost = sorted(set(T.free_vars(tb)) - set(T.free_vars(ta)))
                        return "step %d after the restart: %s(%s) differs from the uninterrupted session%s" % (
                            n, e, t, " (the effect of %s is lost)" % lost if lost else ""), solve.complete_model(v.model, ta, tb)
                    if v.status == "unknown":
                        return "UNKNOWN " + v.detail, None
    return None


def check_case(hist, k, timeout_s, start=START, dt=DT):
    def run():
        try:
            return ("ok",) + run_case(hist, k, "sym", start=start, dt=dt)
        except Exception as e:
            import traceback
            return ("exc", e, traceback.format_exc()[-600:])
    try:
        paths = S.explore(run, max_paths=8)
    except (S.PathCapExceeded, S.SolverUnknown, S.SymbolicEscape) as e:
        return "unknown", "explore: %r" % (e,)
    for p in paths:
        if p.exc is not None:
            return "unknown", "harness: %r" % (p.exc,)
        if p.out[0] == "exc":
            return "violated", {"_what": "raised %r" % (p.out[1],), "_tb": p.out[2]}
        r = compare(p.out[1], p.out[2], p.pc, timeout_s)
        if r:
            if r[0].startswith("UNKNOWN"):
                return "unknown", r[0]
            info = dict(r[1] or {})
            info["_what"] = r[0]
            return "violated", info
    return "holds", None


# ------------------------------------------------------------------ damaged state files

def damaged_case(kind):
    """two externalised instances; the file of the first is damaged; -> None or description"""
    from BPTK_Py.server import BptkServer
    from BPTK_Py.externalstateadapter import FileAdapter
    d = tempfile.mkdtemp(prefix="c20-d-", dir=os.environ.get("VCHECK_SCRATCH"))
    try:
        app1 = BptkServer(__name__, factory, FileAdapter(False, d))
        c1 = app1.test_client()
        ids = []
        for _ in range(2):
            inst = json.loads(c1.post("/start-instance", data=json.dumps({"timeout": {"hours": 1}}), content_type="application/json").data)["instance_uuid"]
            c1.post("/%s/begin-session" % inst, data=json.dumps({"scenario_managers": ["sm"], "scenarios": ["A"], "equations": scen.EQS}),
                    content_type="application/json")
            c1.post("/%s/run-step" % inst)
            ids.append(inst)
        ref = c1.post("/%s/run-step" % ids[1])
        ref_body = json.loads(ref.data)
        # undo that extra step for the comparison: re-save happens in run-step, so take the reference from a twin
        path = os.path.join(d, ids[0] + ".json")
        with open(path) as f:
            content = f.read()
        with open(path, "w") as f:
            f.write(DAMAGE[kind](content))
        del app1, c1
        try:
            app2 = BptkServer(__name__, factory, FileAdapter(False, d))
        except Exception as e:
            return "the server does not start on a directory with a %s state file: %r" % (kind, e)
        c2 = app2.test_client()
        r = c2.get("/%s/session-results" % ids[1])
        if r.status_code != 200:
            return "the intact instance is not served after the restart (status %d)" % r.status_code
        res = json.loads(r.data)
        try:
            n = len(res["sm"]["A"]["equations"]["S"])
        except Exception:
            return "the intact instance lost its results: %r" % (res,)
        if n != 2:
            return "the intact instance has %d result steps after the restart, had 2" % n
        r0 = c2.post("/%s/run-step" % ids[0])
        if r0.status_code == 200 and kind != "intact":
            pass        # the damaged instance may be lost (status 500) or may have been rejected; both are allowed
        return None
    finally:
        shutil.rmtree(d, ignore_errors=True)


def replay(case):
    if case.get("kind") == "damaged":
        r = damaged_case(case["damage"])
        return (r is not None), r or "server starts and serves the intact instance"
    hist, k = case["hist"], case["k"]
    try:
        after, ref = run_case(hist, k, "float", case.get("env", {}), start=case.get("start", START), dt=case.get("dt", DT))
    except Exception as e:
        return True, "history %s crash after %d steps: raised %r" % (hist, k, e)
    r = compare(after, ref, (), 0, numeric=True)
    return (r is not None), "history %s, crash after %d steps: %s" % (hist, k, r[0] if r else "remaining steps equal the uninterrupted session")


def canary_restore_loses_clock():
    from BPTK_Py.bptk import bptk as _bptk_cls

    class bp(object):
        bptk = _bptk_cls
    orig = bp.bptk._set_state

    def bad(self, state):
        state = dict(state)
        state["step"] = state["starttime"]
        return orig(self, state)
    bp.bptk._set_state = bad
    try:
        st, info = check_case(["none", "none"], 1, 10)
    finally:
        bp.bptk._set_state = orig
    return st == "violated"


_G = {}


def _task(t):
    return check_case(t[0], t[1], _G["timeout"], start=t[2], dt=(t[3] if len(t) > 3 else DT))


def run(tier):
    import BPTK_Py.server.bptkServer as srv
    from BPTK_Py.externalstateadapter import externalStateAdapter as esa
    from BPTK_Py.bptk import bptk
    from BPTK_Py.scenariorunners.sd_runner import SdRunner
    rep = harness.Report(PID, tier, "model_checking", MODULE)
    rep.encoded(srv.BptkServer.__init__, srv.BptkServer._run_step_resource, srv.BptkServer._run_steps_resource,
                srv.BptkServer._stream_steps_resource, srv.BptkServer._ensure_instance_exists, srv.InstanceManager.reconstruct_instance,
                bptk._set_state, SdRunner.run_scenario_step, esa.FileAdapter._save_instance, esa.FileAdapter._load_instance,
                esa.FileAdapter._load_state, esa.ExternalStateAdapter.load_state)
    _G["timeout"] = 20 if tier == "quick" else 60
    stubs = harness.Stubs()
    harness.install_sd_stubs(stubs)
    scen.install_json_hooks(stubs)
    tasks = [(h, k, START) for h in histories(tier) for k in range(0, len(h) + 1)]
    # step times crossing a digit boundary (8, 9, 10, 11): string-keyed logs of a restored state sort differently
    tasks += [(h, k, 8.0) for h in histories(tier) if len(h) >= 3 for k in range(1, len(h) + 1)]
    # fractional dt: step keys such as 0.25, 0.75, 1.25
    tasks += [(h, k, st_, dt_) for (st_, dt_) in ((0.0, 0.25), (0.5, 0.05)) for h in histories("quick") if 2 <= len(h) <= 3 and "steps2" not in h
              for k in range(1, len(h) + 1)][::(1 if tier == "thorough" else 2)]
    counts = {"holds": 0, "violated": 0, "unknown": 0}
    samples, bad = [], []
    try:
        results = harness.pmap(_task, tasks, procs=8, chunksize=4)
        for t, (r, err) in zip(tasks, results):
            st, info = ("unknown", err) if err else r
            counts[st] += 1
            if st == "violated":
                bad.append((t, info))
            elif st == "unknown":
                rep.inconcl("%s: %s" % (t, info))
            if len(samples) < 8 and (len(samples) < 3 or st != "holds"):
                samples.append({"history": t[0], "crash_after_step": t[1], "start": t[2], "verdict": st,
                                "info": str(info.get("_what") if isinstance(info, dict) else "")[:200]})
        rep.canary("restore-resets-the-clock", canary_restore_loses_clock())
    finally:
        stubs.restore()
    seen = set()
    for t_, info in sorted(bad, key=lambda x: (len(x[0][0]), x[0][1])):
        hist, k, st0 = t_[0], t_[1], t_[2]
        dt0 = t_[3] if len(t_) > 3 else DT
        what = info.get("_what", "")
        if "missing" in what:
            sig = "restart:equation-missing"
        elif "status" in what:
            sig = "restart:status"
        elif "times" in what:
            sig = "restart:grid"
        elif "raised" in what:
            sig = "restart:raised"
        else:
            sig = "restart:settings-before-crash-lost" if "lost" in what else "restart:value"
        if sig in seen:
            continue
        seen.add(sig)
        env = {k_: float(v) for k_, v in info.items() if isinstance(v, (Fraction, int, float)) and not isinstance(v, bool)}
        if dt0 != DT and sig in ("restart:settings-before-crash-lost", "restart:value", "restart:grid"):
            sig += ":dt=%g" % dt0
        rep.candidate(sig, {"hist": hist, "k": k, "env": env, "start": st0, "dt": dt0}, "history %s from t=%s dt=%s, crash after %d steps: %s" % (hist, st0, dt0, k, what))
    dmg = 0
    for kind in DAMAGE:
        dmg += 1
        r = damaged_case(kind)
        if r:
            rep.candidate("damaged:%s" % ("startup" if "does not start" in r else "other-instance"), {"kind": "damaged", "damage": kind}, "%s state file: %s" % (kind, r))
        samples.append({"damaged_file": kind, "server_survives": r is None})
    rep.assume("crash = the server object is discarded between two requests and a new BptkServer is constructed on the same FileAdapter directory (plain mode)",
               "torn writes are modelled by outcome classes of the state file (%s); byte-exact truncation points are inside the C JSON decoder" % ", ".join(DAMAGE),
               "histories <= %d requests, each a run-step with a constant setting (k or c) or without settings, a run-steps of 2 steps, a stream-steps the client abandons after the first step, or a second begin-session on the instance; every crash point 0..N" % (3 if tier == "quick" else 4))
    rep.coverage.update({"states": len(tasks) + dmg, "transitions": max(1, counts["holds"]), "traces_validated_against_impl": len(rep.cands),
                         "samples": samples, "verdicts": counts, "exhaustive": True,
                         "explanation": "states = (session history, crash point) pairs + damaged-file classes",
                         "outside": "crashes inside a request other than during the state write; compressing adapters (C19 records their losses)"})
    return rep.finish()
