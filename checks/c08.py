"""C08 - memoised results are never stale or ambiguous.

Part A (vsym): edit/evaluate histories through the modelling API; after every operation every element
must evaluate to what a freshly built model with the final definitions yields (all values symbolic).
Part B (vsym): stochastic equations with a fresh-symbol random stub; for every ordered subset of
requested equations the reported X(t) is the very draw every dependent consumed.
Part C (schedbmc): thread schedules of Model.memoize as solver variables (see checks/c08_sched.py)."""
import itertools
from fractions import Fraction

from vsym import terms as T, sym as S, solve, harness

PID = "C08"
MODULE = "checks.c08"
TS = [0.0, 1.0, 2.0]
ELS = ["k", "c", "init", "g", "f", "S", "total", "asum"]
OPS = ["eval", "set_conv", "set_const", "set_init_float", "set_init_const", "set_flow", "reset", "run_twice", "set_member"]


class World(object):
    """definitions are tracked by the harness; `build` replays them on a fresh Model"""

    def __init__(self, mode, env=None, entry="evaluate"):
        self.entry = entry           # how elements are evaluated before the edits: the memo must not care
        self.mode, self.env, self.n = mode, env or {}, 0
        self.defs = {"k": self.lit("k0"), "c": self.lit("c0"), "init": self.lit("i0"),
                     "g": ("k*2+c",), "f": ("g",), "S_init": ("const",), "S_eq": ("f",),
                     "r0": self.lit("r0"), "r1": self.lit("r1")}
        self.m = self.build(self.defs)

    def lit(self, name):
        if self.mode == "sym":
            return S.SymLit(name)
        return float(self.env.get(name, _default(name)))

    def build(self, d):
        from BPTK_Py import Model
        m = Model(starttime=0.0, stoptime=3.0, dt=1.0, name="c08")
        k, c, init = m.constant("k"), m.constant("c"), m.constant("init")
        g, f, S_, tot = m.converter("g"), m.flow("f"), m.stock("S"), m.converter("total")
        k.equation, c.equation, init.equation = d["k"], d["c"], d["init"]
        self._set_g(m, d["g"])
        self._set_f(m, d["f"])
        S_.initial_value = init if d["S_init"][0] == "const" else d["S_init"][1]
        S_.equation = f
        tot.equation = S_ + g
        # an arrayed constant and an aggregate over it: the aggregate's term must refer to the members, not copy them
        rate, asum = m.constant("rate"), m.converter("asum")
        rate.setup_vector(2, [d["r0"], d["r1"]])
        asum.equation = rate.arr_sum()
        return m

    def member_sum(self):
        """the harness' own reading of asum under the current definitions (not the model's rendering of it)"""
        vals = [S.v(x.symname) if isinstance(x, S.SymLit) else float(x) for x in (self.defs["r0"], self.defs["r1"])]
        return vals[0] + vals[1]

    @staticmethod
    def _set_g(m, spec):
        k, c = m.constant("k"), m.constant("c")
        g = m.converter("g")
        if spec[0] == "k*2+c":
            g.equation = k * 2.0 + c
        else:
            g.equation = k * spec[1] + c * c

    @staticmethod
    def _set_f(m, spec):
        f = m.flow("f")
        g, k = m.converter("g"), m.constant("k")
        if spec[0] == "g":
            f.equation = g
        else:
            f.equation = g + k * spec[1]

    def apply(self, op, arg):
        m = self.m
        self.n += 1
        tag = "e%d" % self.n
        if op == "eval":
            self.value(m, ELS[arg % len(ELS)], TS[-1], self.entry)
        elif op == "set_conv":
            self.defs["g"] = ("k*lit+c*c", self.lit(tag))
            self._set_g(m, self.defs["g"])
        elif op == "set_const":
            name = ["k", "c", "init"][arg % 3]
            self.defs[name] = self.lit(tag)
            m.constant(name).equation = self.defs[name]
        elif op == "set_init_float":
            self.defs["S_init"] = ("float", self.lit(tag))
            m.stock("S").initial_value = self.defs["S_init"][1]
        elif op == "set_init_const":
            self.defs["S_init"] = ("const",)
            m.stock("S").initial_value = m.constant("init")
        elif op == "set_flow":
            self.defs["f"] = ("g+k*lit", self.lit(tag))
            self._set_f(m, self.defs["f"])
        elif op == "set_member":
            self.defs["r%d" % (arg % 2)] = self.lit(tag)
            m.constant("rate")[arg % 2] = self.defs["r%d" % (arg % 2)]
        elif op == "reset":
            m.reset_cache()
        elif op == "run_twice":
            pass

    KIND = {"asum": "converter", "k": "constant", "c": "constant", "init": "constant", "g": "converter", "f": "flow", "S": "stock", "total": "converter"}

    def value(self, m, e, t, entry):
        """the entry points through which a model is evaluated"""
        if entry == "evaluate":
            return m.evaluate_equation(e, t)
        if entry == "memoize":
            return m.memoize(e, t)
        el = getattr(m, self.KIND[e])(e)
        if entry == "call":
            return el(t)
        return el.plot(starttime=TS[0], stoptime=t, dt=1.0, return_df=True)[e][t]          # entry == "plot"

    def observe(self, m=None, entry="evaluate"):
        m = m or self.m
        return {e: {t: self.value(m, e, t, entry) for t in TS} for e in ELS}


def _default(n):
    h = sum(ord(ch) * (i + 1) for i, ch in enumerate(n))
    return [1.5, 2.25, 0.75, 3.5, 0.5, 4.0, 6.5][h % 7]


def histories(tier):
    alphabet = [("eval", 5), ("eval", 6), ("set_conv", 0), ("set_const", 0), ("set_const", 1), ("set_const", 2),
                ("set_init_float", 0), ("set_init_const", 0), ("set_flow", 0), ("reset", 0), ("set_member", 1)]
    out = [[a] for a in alphabet]
    out += [[a, b] for a in alphabet for b in alphabet]
    out += [[("eval", 6), a, b] for a in alphabet for b in alphabet if a[0] != "eval"]
    if tier == "thorough":
        out += [[a, b, c] for a in alphabet for b in alphabet for c in alphabet if a[0] == "eval" or b[0] != "eval"]
        out += [[a, b, c, d] for a in alphabet[:2] for b in alphabet[2:] for c in alphabet for d in alphabet[2:]]
        out += [[b, a, c, d, ("eval", 6)] for a in alphabet[:2] for b in alphabet[2:] for c in alphabet[2:] for d in alphabet[2:]]
    return out


ENTRIES = ["evaluate", "call", "memoize", "plot"]


def run_history(hist, mode, env=None, entry="evaluate"):
    w = World(mode, env, entry)
    out = []
    w.observe(entry=entry)                        # populate the memo before the first edit, through the chosen entry point
    for i, (op, arg) in enumerate(hist):
        w.apply(op, arg)
        got = w.observe()
        again = w.observe()
        want = w.observe(w.build(w.defs))
        want["asum"] = {t: w.member_sum() for t in TS}
        out.append((i, got, again, want))
    return out


def compare(got, again, want, pc, timeout_s, numeric=False):
    for e in ELS:
        for t in TS:
            a, a2, b = got[e][t], again[e][t], want[e][t]
            if numeric:
                if abs(float(a) - float(b)) > 1e-9 * (1 + abs(float(b))):
                    return "%s(%s) = %r, a fresh model with the final definitions gives %r" % (e, t, float(a), float(b)), None
                if float(a) != float(a2):
                    return "%s(%s) differs between two consecutive evaluations" % (e, t), None
            else:
                ta, tb = S.term_of(a), S.term_of(b)
                v = solve.prove_equal(ta, tb, pc, timeout_s=timeout_s)
                if v.status == "violated":
                    return "%s(%s) is stale: differs from a fresh model with the final definitions" % (e, t), solve.complete_model(v.model, ta, tb)
                if v.status == "unknown":
                    return "UNKNOWN " + v.detail, None
                if S.term_of(a2) is not ta:
                    return "%s(%s) differs between two consecutive evaluations" % (e, t), {}
    return None


def check_history(hist, timeout_s, entry="evaluate"):
    def run():
        try:
            return ("ok", run_history(hist, "sym", None, entry))
        except Exception as e:
            import traceback
            return ("exc", e, traceback.format_exc()[-500:])
    try:
        paths = S.explore(run, max_paths=8)
    except (S.PathCapExceeded, S.SolverUnknown, S.SymbolicEscape) as e:
        return "unknown", "explore: %r" % (e,)
    for p in paths:
        if p.exc is not None:
            return "unknown", "harness: %r" % (p.exc,)
        if p.out[0] == "exc":
            return "violated", {"_what": "raised %r" % (p.out[1],), "_after": -2}
        for (i, got, again, want) in p.out[1]:
            r = compare(got, again, want, p.pc, timeout_s)
            if r:
                if r[0].startswith("UNKNOWN"):
                    return "unknown", r[0]
                info = dict(r[1] or {})
                info["_what"], info["_after"] = r[0], i
                return "violated", info
    return "holds", None


# ------------------------------------------------------------------ part B

B_SPECS = [(0.0, 1.0, 2), (0.0, 0.1, 4), (1.0, 0.2, 3), (0.5, 0.25, 3), (2.0, 0.1, 3)]     # (start, dt, steps): dyadic and decimal dt


def b_grid(spec):
    fs, fd = Fraction(str(spec[0])), Fraction(str(spec[1]))
    return [float(fs + k * fd) for k in range(spec[2] + 1)]


def stochastic_model(spec=B_SPECS[0]):
    from BPTK_Py import Model
    from BPTK_Py import sd_functions as sd
    m = Model(starttime=spec[0], stoptime=b_grid(spec)[-1], dt=spec[1], name="c08b")
    X, Y, Z, St = m.converter("X"), m.converter("Y"), m.converter("Z"), m.stock("St")
    X.equation = sd.random(0.0, 1.0)
    Y.equation = X * 2.0
    Z.equation = X + Y
    St.initial_value = 0.0
    St.equation = X
    return m


def check_part_b(timeout_s):
    """every ordered subset of {X, Y, Z, St} requested from one SdSimulation (worker threads run one after the
    other under the deterministic thread stub)"""
    from BPTK_Py.sdsimulation.sd_simulation import SdSimulation
    names = ["X", "Y", "Z", "St"]
    bad = []
    n = 0
    for spec in B_SPECS:
      ts = b_grid(spec)
      for r in (1, 2, 3, 4):
        for sub in itertools.permutations(names, r):
            n += 1
            m = stochastic_model(spec)
            sim = SdSimulation(model=m, name="b")
            df = sim.start(output=["frame"], equations=list(sub))
            val = lambda e, t: df[e][t] if e in sub else m.memoize(e, t)
            for t in ts:
                x = S.term_of(val("X", t))
                if not (x.op == "var"):
                    bad.append((sub, spec, "X(%s) is not a single draw: %s" % (t, T.show(x))))
                    continue
                for e, ref in (("Y", T.mul(x, T.const(2))), ("Z", T.add(x, T.mul(x, T.const(2))))):
                    v = solve.prove_equal(S.term_of(val(e, t)), ref, (), timeout_s=timeout_s)
                    if v.status != "holds":
                        bad.append((sub, spec, "%s(%s) was computed from a different draw than the reported X(%s)" % (e, t, t)))
            # the stock consumed the reported draws
            acc = T.const(0)
            for t in ts[:-1]:
                acc = T.add(acc, T.mul(T.const(spec[1]), S.term_of(val("X", t))))
            v = solve.prove_equal(S.term_of(val("St", ts[-1])), acc, (), timeout_s=timeout_s)
            if v.status != "holds":
                bad.append((sub, spec, "St(%s) did not integrate the reported X draws" % ts[-1]))
    return n, bad


def replay_b(case):
    """concrete: random.uniform replaced by a counter; requested order from the case"""
    import random as _r
    from BPTK_Py.sdsimulation.sd_simulation import SdSimulation
    sub = case["sub"]
    spec = tuple(case.get("spec", B_SPECS[0]))
    ts = b_grid(spec)
    cnt = [0]
    old = _r.uniform

    def fake(a, b):
        cnt[0] += 1
        return float(cnt[0])
    _r.uniform = fake
    try:
        m = stochastic_model(spec)
        df = SdSimulation(model=m, name="b").start(output=["frame"], equations=list(sub))
        val = lambda e, t: df[e][t] if e in sub else m.memoize(e, t)
        for t in ts:
            x, y = val("X", t), val("Y", t)
            if y != 2.0 * x:
                return True, "requested %s, start %s dt %s: X(%s)=%r but Y(%s)=%r" % (sub, spec[0], spec[1], t, x, t, y)
        want = sum(spec[1] * val("X", t) for t in ts[:-1])
        got = val("St", ts[-1])
        if abs(got - want) > 1e-9 * (1 + abs(want)):
            return True, "requested %s, start %s dt %s: St(%s)=%r but the reported draws integrate to %r" % (sub, spec[0], spec[1], ts[-1], got, want)
    finally:
        _r.uniform = old
    return False, "requested %s, start %s dt %s: one draw per (X, t)" % (sub, spec[0], spec[1])


# ------------------------------------------------------------------ part D: scenario cache reset after a session

D_HISTORIES = [["session", "edit_k", "reset", "run"], ["edit_k", "session", "edit_c", "reset", "run"],
               ["session", "edit_k", "session", "run"], ["run", "session", "edit_c", "run"], ["session", "session", "edit_k", "reset", "run"],
               ["session_set", "edit_k", "reset", "run"]]


def run_part_d(hist, mode, env=None):
    """a scenario of a registered manager; edits through the modelling API on the scenario's own model; after 'run' the
    batch results must be those of a fresh model with the final definitions -> (got, want)"""
    import BPTK_Py
    from checks import scen
    env = env or {}
    b = BPTK_Py.bptk()
    b.register_scenario_manager({"smD": {"model": scen.base_model(0.0, 3.0, 1.0, name="c08d")}})
    b.register_scenarios(scenario_manager="smD", scenarios={"A": {}})
    sc = b.scenario_manager_factory.scenario_managers["smD"].scenarios["A"]
    consts, n = {}, 0

    def lit(name):
        return S.SymLit(name) if mode == "sym" else float(env.get(name, _default(name)))

    def ref(name):
        return S.v(name) if mode == "sym" else float(env.get(name, _default(name)))
    got = None
    for op in hist:
        n += 1
        if op in ("session", "session_set"):
            st = {}
            if op == "session_set":
                st = {"smD": {"A": {"constants": {"c": scen.sym_const("ds%d" % n) if mode == "sym" else ref("ds%d" % n)}}}}
                consts["c"] = ref("ds%d" % n)
            b.begin_session(scenarios=["A"], scenario_managers=["smD"], equations=scen.EQS, settings=st)
            b.run_step()
            b.run_step()
            b.end_session()
        elif op in ("edit_k", "edit_c"):
            name = op[-1]
            consts[name] = ref("de%d" % n)
            sc.model.constant(name).equation = lit("de%d" % n)
        elif op == "reset":
            b.reset_scenario_cache(scenario_manager="smD", scenario="A")
        elif op == "run":
            df = b.run_scenarios(scenarios=["A"], scenario_managers=["smD"], equations=scen.EQS, return_format="df")
            got = scen.from_df(df, "smD", "A")
    want = scen.fresh_results(0.0, 3.0, 1.0, consts, {})
    return got, want


def check_part_d(hist, timeout_s):
    from checks import scen

    def run():
        try:
            return ("ok",) + run_part_d(hist, "sym")
        except Exception as e:
            return ("exc", e)
    try:
        paths = S.explore(run, max_paths=8)
    except (S.PathCapExceeded, S.SolverUnknown, S.SymbolicEscape) as e:
        return "unknown", "explore: %r" % (e,)
    for p in paths:
        if p.exc is not None:
            return "unknown", "harness: %r" % (p.exc,)
        if p.out[0] == "exc":
            return "violated", {"_what": "raised %r" % (p.out[1],)}
        got, want = p.out[1], p.out[2]
        for e in scen.EQS:
            if got.get(e) is None or sorted(got[e]) != sorted(want[e]):
                return "violated", {"_what": "equation %s: grid %s" % (e, None if got.get(e) is None else sorted(got[e]))}
            for t in want[e]:
                v = solve.prove_equal(S.term_of(got[e][t]), S.term_of(want[e][t]), p.pc, timeout_s=timeout_s)
                if v.status == "violated":
                    info = solve.complete_model(v.model, S.term_of(got[e][t]), S.term_of(want[e][t]))
                    info["_what"] = "%s(%s) is not what a fresh model with the final definitions yields" % (e, t)
                    return "violated", info
                if v.status == "unknown":
                    return "unknown", v.detail
    return "holds", None


def replay_d(case):
    from checks import scen
    for env in (case.get("env", {}), {}):
        got, want = run_part_d(case["hist"], "float", env)
        for e in scen.EQS:
            for t in want[e]:
                a, b_ = float(got[e][t]), float(want[e][t])
                if abs(a - b_) > 1e-9 * (1 + abs(b_)):
                    return True, "scenario history %s: %s(%s) = %r, a fresh model with the final definitions gives %r" % (case["hist"], e, t, a, b_)
    return False, "scenario history %s: results are those of the final definitions" % (case["hist"],)


def replay(case):
    if case.get("kind") == "d":
        return replay_d(case)
    if case.get("kind") == "b":
        return replay_b(case)
    if case.get("kind") == "sched":
        from checks import c08_sched
        return c08_sched.replay(case)
    hist = [tuple(x) for x in case["hist"]]
    for env in (case.get("env", {}), {}, {"k0": 4.5, "c0": 0.25, "i0": 7.0, "e1": 3.0, "e2": 8.0, "e3": 0.5, "r0": 2.5, "r1": 0.125}):
        try:
            res = run_history(hist, "float", env, case.get("entry", "evaluate"))
        except Exception as e:
            return True, "history %s raised %r" % (hist, e)
        for (i, got, again, want) in res:
            r = compare(got, again, want, (), 0, numeric=True)
            if r:
                return True, "history %s, after operation %d: %s" % (hist, i, r[0])
    return False, "history %s: never stale" % (hist,)


def canary_equation_setter_keeps_cache():
    import BPTK_Py.sddsl.element as el
    orig = el.Element.equation.fset

    def bad(self, equation):
        saved = self.model.reset_cache
        self.model.reset_cache = lambda: None
        try:
            orig(self, equation)
        finally:
            del self.model.__dict__["reset_cache"]
    el.Element.equation = el.Element.equation.setter(bad)
    try:
        st, info = check_history([("set_conv", 0)], 10)
    finally:
        el.Element.equation = el.Element.equation.setter(orig)
    return st == "violated"


_G = {}


def _task(t):
    return check_history(t[1], _G["timeout"], t[0])


def run(tier):
    from BPTK_Py import Model
    import BPTK_Py.sddsl.element as el
    import BPTK_Py.sddsl.stock as stk
    import BPTK_Py.sddsl.constant as cst
    from BPTK_Py.scenariomanager.scenario import SimulationScenario
    from BPTK_Py.sdsimulation.sd_simulation import SdSimulation
    rep = harness.Report(PID, tier, "model_checking", MODULE)
    rep.encoded(Model.memoize, Model.reset_cache, el.Element.equation.fset, el.Element.generate_function, stk.Stock.initial_value.fset,
                stk.Stock.equation.fset, cst.Constant.equation.fset, SimulationScenario.reset_cache,
                SdSimulation._SdSimulation__simulate_equations, SdSimulation._SdSimulation__simulate)
    _G["timeout"] = 20 if tier == "quick" else 60
    stubs = harness.Stubs()
    harness.install_sd_stubs(stubs)
    hs = histories(tier)
    counts = {"holds": 0, "violated": 0, "unknown": 0}
    samples, bad = [], []
    try:
        tasks = [(en, h) for en in ENTRIES for h in hs if en == "evaluate" or len(h) <= 2 or tier == "thorough"]
        results = harness.pmap(_task, tasks, chunksize=8)
        for (en, h), (r, err) in zip(tasks, results):
            st, info = ("unknown", err) if err else r
            counts[st] += 1
            if st == "violated":
                info = dict(info)
                info["_entry"] = en
                bad.append((h, info))
            elif st == "unknown":
                rep.inconcl("history %s: %s" % (h, info))
            if len(samples) < 6 and (len(h) >= 2 or st != "holds"):
                samples.append({"history": h, "verdict": st})
        nb, bad_b = check_part_b(_G["timeout"])
        bad_d = []
        for hd in D_HISTORIES:
            st, info = check_part_d(hd, _G["timeout"])
            counts[st] += 1
            if st == "violated":
                bad_d.append((hd, info))
            elif st == "unknown":
                rep.inconcl("scenario history %s: %s" % (hd, info))
        rep.canary("equation-setter-keeps-cache", canary_equation_setter_keeps_cache())
    finally:
        stubs.restore()
    seen = set()
    for h, info in sorted(bad, key=lambda x: len(x[0])):
        i = info.get("_after", -1)
        sig = "stale:%s" % (h[i][0] if i >= 0 else "raised") + ("" if info.get("_entry", "evaluate") == "evaluate" else ":after-" + info["_entry"])
        if sig in seen:
            continue
        seen.add(sig)
        env = {k: float(v) for k, v in info.items() if isinstance(v, (Fraction, int, float)) and not isinstance(v, bool)}
        rep.candidate(sig, {"hist": [list(x) for x in h], "env": env, "entry": info.get("_entry", "evaluate")},
                      "history %s (memo filled through %s) after op %s: %s" % (h, info.get("_entry", "evaluate"), i, info.get("_what")))
    for hd, info in bad_d[:2]:
        env = {k: float(v) for k, v in info.items() if isinstance(v, (Fraction, int, float)) and not isinstance(v, bool)}
        rep.candidate("stale:scenario:%s" % "-".join(hd[:-1][-2:]), {"kind": "d", "hist": hd, "env": env}, "scenario history %s: %s" % (hd, info.get("_what")))
    seen_b = set()
    for sub, spec, what in bad_b:
        sig = "ambiguous:sequential" + ("" if spec == B_SPECS[0] else ":dt=%g" % spec[1])
        if sig in seen_b:
            continue
        seen_b.add(sig)
        rep.candidate(sig, {"kind": "b", "sub": list(sub), "spec": list(spec)}, "requested %s (start %s, dt %s): %s" % (sub, spec[0], spec[1], what))
    # part C
    from checks import c08_sched
    sched = c08_sched.run_part(rep, tier)
    rep.assume("part A: 7-element model (3 constants, converter, flow, stock, sum) plus an arrayed constant and an aggregate over it (expected value = sum of the harness' own member symbols); every edit writes a fresh symbol; histories exhaustive to length 2 (+ eval-first length 3); the memo is filled before the edits through each of 4 entry points (evaluate_equation, element(t), memoize, Element.plot)",
               "part B: random.* replaced by a fresh-symbol stub; worker threads joined one by one (deterministic thread stub); run specs %s" % (B_SPECS,),
               "part C: 2 threads, source-line granularity, schedule length bound; see evidence.sched",
               "part D: %d histories of session / edit through the modelling API / scenario cache reset / batch run on a registered scenario" % len(D_HISTORIES))
    rep.coverage.update({"states": len(hs) + nb + sched.get("states", 0), "transitions": max(1, counts["holds"] + nb - len(bad_b) + sched.get("transitions", 0)),
                         "traces_validated_against_impl": len(seen) + sched.get("replayed", 0),
                         "samples": samples + sched.get("samples", []), "verdicts": counts, "part_b_orderings": nb, "sched": sched,
                         "exhaustive": True,
                         "explanation": "states = edit histories + ordered equation subsets + BMC schedule queries",
                         "outside": "more than 2 threads, preemption inside a source line, numpy's own thread safety"})
    return rep.finish()
