"""C01 - SD DSL simulation equals the explicit-Euler solution of the model.

Engine: vsym (Real mode).  Models come from the harness' description language (sdlang); the REAL
Model.stock/flow/..., equation/initial_value setters, term(), eval'd lambdas, memoize, _lookup and
the built-in operator classes are executed with symbolic constants / initial values / literals /
lookup y-values; time is concrete (run-spec lattice).  z3 decides impl == Euler reference for
every element at every grid time.
"""
import itertools
import random as _random
from fractions import Fraction

from vsym import terms as T, sym as S, solve, harness
from checks import sdlang as L

PID = "C01"
MODULE = "checks.c01"

K1, K2, K3 = ("el", "k1"), ("el", "k2"), ("el", "k3")
Sx = ("el", "S")


def B(op, l, r):
    return ("bin", op, l, r)


CONSTS = [("constant", "k1", ("lit", "k1")), ("constant", "k2", ("lit", "k2")), ("constant", "k3", ("lit", "k3"))]

FLOW_EQS = {
    "const": K1,
    "k*S": B("mul", K1, Sx),
    "S/k": B("div", Sx, K2),
    "k-S": B("sub", K1, Sx),
    "min(S,k)": ("fn", "min", Sx, K1),
    "conv": ("el", "c1"),
    "k*time": B("mul", ("time",), K1),
    "If(S>k)": ("If", ("cmp", "gt", Sx, K1), K2, Sx),
    "lit*S": B("mul", ("lit", "q"), Sx),
}

PTS_UP = [(0.0, "y0"), (1.0, "y1"), (2.0, "y2")]
PTS_DOWN = [(0.0, 5.0), (1.5, "y1"), (3.0, -1.0), (4.0, "y3")]


def structure_models(tier):
    out = []
    keys = list(FLOW_EQS)
    conv = ("converter", "c1", B("sub", B("mul", K1, Sx), K2))
    outs = ["const", "k*S", "k-S", "conv"] if tier == "quick" else keys

    def mk(tag, flows, eq):
        els = list(CONSTS) + [conv] + [("stock", "S", (("lit", "s0"), eq))]
        for kind, name, fk in flows:
            els.append((kind, name, FLOW_EQS[fk]))
        return (tag, {"name": tag, "elements": els})
    for a in keys:
        out.append(mk("struct:in[%s]" % a, [("flow", "in1", a)], ("el", "in1")))
        out.append(mk("struct:bi[%s]" % a, [("biflow", "b1", a)], ("el", "b1")))
        out.append(mk("struct:-out[%s]" % a, [("flow", "o1", a)], ("neg", ("el", "o1"))))
    for a in keys:
        for b in outs:
            out.append(mk("struct:in[%s]-out[%s]" % (a, b), [("flow", "in1", a), ("flow", "o1", b)],
                          B("sub", ("el", "in1"), ("el", "o1"))))
    trip = [("const", "k*S", "k-S"), ("k*time", "conv", "S/k"), ("If(S>k)", "const", "min(S,k)")]
    if tier == "thorough":
        trip += [(a, b, c) for a in keys[:4] for b in keys[4:7] for c in keys[:3]]
    for a, b, c in trip:
        fl = [("flow", "in1", a), ("flow", "in2", b), ("flow", "o1", c)]
        out.append(mk("struct:in+in-out[%s,%s,%s]" % (a, b, c), fl,
                      B("sub", B("add", ("el", "in1"), ("el", "in2")), ("el", "o1"))))
        fl = [("flow", "in1", a), ("flow", "o1", b), ("flow", "o2", c)]
        out.append(mk("struct:in-(out+out)[%s,%s,%s]" % (a, b, c), fl,
                      B("sub", ("el", "in1"), B("add", ("el", "o1"), ("el", "o2")))))
    # two coupled stocks, initial value given by a constant element
    els = list(CONSTS) + [
        ("stock", "S", (("el", "k3"), B("sub", ("el", "in1"), ("el", "x")))),
        ("stock", "S2", (("lit", "s0"), ("el", "x"))),
        ("flow", "in1", K1), ("flow", "x", B("mul", K2, Sx)), ("converter", "tot", B("add", Sx, ("el", "S2")))]
    out.append(("struct:two-stocks", {"name": "two", "elements": els}))
    return out


A_, B_ = ("el", "a"), ("el", "b")
VARY = [("converter", "a", B("add", B("mul", K1, ("time",)), K2)),      # a(t) = k1*t + k2
        ("converter", "b", B("sub", K3, ("time",)))]                      # b(t) = k3 - t

DIRECT = {
    "el": A_,
    "num*el": B("mul", ("num", 2.0), A_),
    "el*num": B("mul", A_, ("num", 2.0)),
    "lit*el": B("mul", ("lit", "q"), A_),
    "el+el": B("add", A_, B_),
    "el-el": B("sub", A_, B_),
    "el*el": B("mul", A_, B_),
    "el/el": B("div", A_, B_),
    "neg": ("neg", A_),
    "pow2": B("pow", A_, ("num", 2)),
    "If": ("If", ("cmp", "gt", A_, K3), A_, B_),
    "If-lit": ("If", ("cmp", "le", A_, ("num", 2.0)), ("num", 1.0), A_),
    "max": ("fn", "max", A_, B_),
    "min-num": ("fn", "min", A_, ("num", 1.5)),
    "abs": ("fn", "abs", A_),
    "sqrt": ("fn", "sqrt", A_),
    "exp": ("fn", "exp", A_),
    "round": ("fn", "round1", A_),
    "time": ("time",),
    "time*el": B("mul", ("time",), A_),
    "dt*el": B("mul", ("dt",), A_),
    "start+el": B("add", ("start",), A_),
    "lookup(time)": ("lookup", ("time",), PTS_UP),
    "lookup(el)": ("lookup", ("el", "tt"), PTS_DOWN),
    "delay1": ("delay", "a", 1, ("lit", "d0")),
    "delay2-noinit": ("delay", "a", 2, None),
    "delay1-const": ("delay", "a", 1, ("el", "k3")),
    "step": ("step", A_, 1),
    "step-lit": ("step", ("lit", "h"), 2),
    "step-at-3": ("step", ("lit", "h"), 3),           # 0.4-0.1 = 0.30000000000000004 must not count as later than 0.3
    "delay3": ("delay", "a", 3, ("lit", "d0")),
    "pulse-at-3": ("pulse", ("lit", "vol"), 3, 0),
    "pulse0": ("pulse", ("lit", "vol"), 1, 0),
    "pulse2": ("pulse", ("lit", "vol"), 1, 2),
    "smooth": ("smooth", A_, ("lit", "T"), ("lit", "i0")),
    "smooth-falling": ("smooth", B_, ("num", 2.0), ("lit", "i0")),
    "trend": ("trend", A_, ("lit", "T"), ("lit", "i0")),
    "nested": B("sub", A_, B("sub", B_, B("mul", ("num", 2.0), A_))),
    "neg-literal": ("num", -2.0),                     # an equation that is a plain negative number (a flow clamps it, too)
    "pos-literal": ("num", 1.5),
}


def direct_models(tier):
    out = []
    tt = ("converter", "tt", ("time",))
    for key, tree in DIRECT.items():
        for kind in ("stock", "converter", "flow", "biflow"):
            if tier == "quick" and kind == "biflow" and key not in ("el", "If", "delay1", "smooth"):
                continue
            els = list(CONSTS) + list(VARY) + [tt]
            if kind == "stock":
                els.append(("stock", "X", (("lit", "s0"), tree)))
            else:
                els.append((kind, "X", tree))
                els.append(("stock", "Y", (("num", 0.0), ("el", "X"))))       # and a stock integrating it
            out.append(("direct:%s:%s" % (kind, key), {"name": key, "elements": els}))
    return out


def specs(tier):
    if tier == "quick":
        return [(0.0, 1.0, 3), (1.0, 0.5, 3), (2.5, 0.25, 3), (0.0, 0.1, 5), (2.5, 1.0, 3), (0.25, 0.5, 3), (1.25, 0.1, 5)]
    return [(0.0, 1.0, 6), (1.0, 1.0, 4), (1.0, 0.5, 6), (2.5, 0.25, 8), (0.0, 0.2, 6), (0.0, 0.1, 8), (1.0, 0.05, 5),
            (2.5, 0.5, 4), (0.0, 0.25, 8), (2.5, 1.0, 4), (0.25, 0.5, 4), (0.5, 1.0, 4), (1.25, 0.1, 5)]


def spec_class(spec):
    return "start=%g,dt=%g" % (spec[0], spec[1])


# ------------------------------------------------------------------ one model / run spec

def grid(spec):
    start, dt, n = spec
    fs, fd = Fraction(str(start)), Fraction(str(dt))
    return [float(fs + k * fd) for k in range(n + 1)]


def observed(desc):
    return [name for kind, name, spec in desc["elements"]]


def run_symbolic(desc, spec, timeout_s, npx, via_plot=False):
    """('holds'|'violated'|'unknown', info)"""
    start, dt, n = spec
    ts = grid(spec)
    try:
        if via_plot == "run":
            built = L.build(desc, start, ts[-1], dt, L.SymLeaves(), model_spec=BUILD_SPEC)
        else:
            built = L.build(desc, start, ts[-1], dt, L.SymLeaves())
    except S.SymbolicEscape as e:
        return "unknown", "engine at build: %s" % e
    except Exception as e:
        return "violated", {"_build_exception": repr(e)}
    names = observed(desc)

    def run():
        built.model.reset_cache()
        ref = L.Ref(desc, start, dt, L.SymLeaves(), exp=npx.exp)
        out = []
        if via_plot == "edit":
            # the model is evaluated once, a constant is then given a new value through the DSL, and everything is
            # evaluated again: the second trajectory must be the Euler solution for the NEW value
            built.els["k1"].equation = L.SymLeaves().dsl("k1")
            for nm in names:
                built.els[nm](ts[-1])
            built.els["k1"].equation = L.SymLeaves().dsl("k1b")
            ref = L.Ref(desc, start, dt, Renamed(L.SymLeaves(), "k1", "k1b"), exp=npx.exp)
        if via_plot == "run":
            try:
                res = scenario_frame(built.model, names, spec)
            except Exception as e:
                return ("exc", names[0], 0, e, out)
            for nm in names:
                if res.get(nm) is None or sorted(res[nm]) != ts:
                    return ("grid", nm, None if res.get(nm) is None else sorted(res[nm]))
                for k, t in enumerate(ts):
                    try:
                        rv = ref.val(nm, k)
                    except (ZeroDivisionError, OverflowError):
                        continue
                    out.append((nm, k, res[nm][t], rv))
            return ("vals", out)
        for k, t in enumerate(ts):
            for nm in names:
                try:
                    if via_plot is True:
                        df = built.els[nm].plot(starttime=start, stoptime=t, dt=dt, return_df=True)
                        iv = df[nm][t]
                    else:
                        iv = built.els[nm](t)
                except Exception as e:
                    return ("exc", nm, k, e, out)
                try:
                    rv = ref.val(nm, k)
                except (ZeroDivisionError, OverflowError):
                    continue
                out.append((nm, k, iv, rv))
        return ("vals", out)
    try:
        paths = S.explore(run, max_paths=128 if timeout_s < 60 else 512)
    except S.PathCapExceeded as e:
        return "unknown", "path cap %r" % (e,)
    except S.SolverUnknown as e:
        return "unknown", "solver unknown in feasibility %r" % (e,)
    except S.SymbolicEscape as e:
        return "unknown", "engine: %s" % e
    for p in paths:
        if p.exc is not None:
            return "unknown", "harness: %r" % (p.exc,)
        if p.out[0] == "grid":
            return "violated", {"_grid": "run_scenarios reports %s at times %s, grid is %s" % (p.out[1], p.out[2], ts)}
        vals = p.out[-1] if p.out[0] == "exc" else p.out[1]
        for nm, k, iv, rv in vals:
            try:
                impl, ref = S.term_of(iv), S.term_of(rv)
            except TypeError:
                return "violated", {"_nonnumeric": "%s(%s) = %r" % (nm, ts[k], iv)}
            v = solve.prove_equal(impl, ref, p.pc, timeout_s=timeout_s)
            if v.status == "violated":
                mdl = solve.complete_model(v.model, impl, ref, *p.pc)
                mdl["_at"] = "%s(t=%s)" % (nm, ts[k])
                return "violated", mdl
            if v.status == "unknown":
                return "unknown", "%s(t=%s): %s" % (nm, ts[k], v.detail)
        if p.out[0] == "exc":
            _, nm, k, e, _ = p.out
            mdl = {}
            r, m = solve.check(list(p.pc), 10)
            mdl = solve.complete_model(m, *p.pc) if r == "sat" else {}
            mdl["_exception"] = "%s(t=%s) raised %r" % (nm, ts[k], e)
            return "violated", mdl
    return "holds", len(paths)


class Renamed(object):
    """leaves in which one literal has been given a new name (the value an edit assigned)"""

    def __init__(self, inner, old, new):
        self.inner, self.old, self.new = inner, old, new

    def dsl(self, name):
        return self.inner.dsl(self.new if name == self.old else name)

    def val(self, name):
        return self.inner.val(self.new if name == self.old else name)


BUILD_SPEC = (1.0, 3.0, 1.0)            # run specs the model object is built with before the scenario overrides them


def scenario_frame(model, names, spec):
    """the model registered with bptk, run through run_scenarios under a scenario that overrides start/stop/dt (first run)"""
    import BPTK_Py
    from checks import scen
    start, dt, n = spec
    ts = grid(spec)
    b = BPTK_Py.bptk()
    b.register_scenario_manager({"smC01": {"model": model}})
    b.register_scenarios(scenario_manager="smC01", scenarios={"A": {"runspecs": {"starttime": start, "stoptime": ts[-1], "dt": dt}}})
    df = b.run_scenarios(scenarios=["A"], scenario_managers=["smC01"], equations=list(names), return_format="df")
    return scen.from_df(df, "smC01", "A", equations=list(names))


# ------------------------------------------------------------------ replay on the real code

ALT_ENVS = [
    {"k1": 1.5, "k2": 2.0, "k3": 4.0, "s0": 3.0, "q": 0.5, "y0": 1.0, "y1": 4.0, "y2": 2.0, "y3": 6.0, "d0": 7.0,
     "h": 2.0, "vol": 3.0, "T": 2.0, "i0": 10.0},
    {"k1": -0.5, "k2": 3.0, "k3": 0.75, "s0": 6.0, "q": 2.0, "y0": 2.0, "y1": -1.0, "y2": 3.0, "y3": 0.5, "d0": -2.0,
     "h": 1.0, "vol": 2.0, "T": 4.0, "i0": 1.0},
    {"k1": 2.0, "k2": 0.5, "k3": 10.0, "s0": 1.0, "q": -1.0, "y0": 0.0, "y1": 1.0, "y2": 5.0, "y3": 2.0, "d0": 1.0,
     "h": 3.0, "vol": 1.0, "T": 0.5, "i0": 4.0},
]


def _tup(x):
    if isinstance(x, list):
        return tuple(_tup(y) for y in x)
    return x


def _desc_from_json(d):
    els = []
    for kind, name, spec in d["elements"]:
        els.append((kind, name, _fix_tree(_tup(spec))))
    return {"name": d.get("name", "m"), "elements": els}


def _fix_tree(t):
    """JSON turned the point lists into tuples of tuples; sdlang accepts both"""
    return t


def run_concrete(desc, spec, env, via_plot=False):
    import math
    start, dt, n = spec
    ts = grid(spec)
    leaves = L.FloatLeaves(env)
    if via_plot == "run":
        built = L.build(desc, start, ts[-1], dt, leaves, model_spec=BUILD_SPEC)
        res = scenario_frame(built.model, observed(desc), spec)
        for nm in observed(desc):
            if res.get(nm) is None or sorted(res[nm]) != ts:
                return "run_scenarios reports %s at times %s, the grid is %s" % (nm, None if res.get(nm) is None else sorted(res[nm]), ts)
    else:
        built = L.build(desc, start, ts[-1], dt, leaves)
    ref = L.Ref(desc, start, dt, leaves, exp=math.exp)
    if via_plot == "edit":
        for nm in observed(desc):
            built.els[nm](ts[-1])
        env2 = dict(env)
        env2.setdefault("k1b", env.get("k1", 1.0) + 2.5)
        leaves2 = L.FloatLeaves(env2)
        built.els["k1"].equation = leaves2.dsl("k1b")
        ref = L.Ref(desc, start, dt, Renamed(leaves2, "k1", "k1b"), exp=math.exp)
    for k, t in enumerate(ts):
        for nm in observed(desc):
            try:
                rv = ref.val(nm, k)
                rv = float(rv)
            except (ZeroDivisionError, OverflowError, ValueError, TypeError):
                continue
            if isinstance(rv, complex) or rv != rv or abs(rv) == float("inf"):
                continue
            try:
                if via_plot == "run":
                    iv = res[nm][t]
                elif via_plot:
                    iv = built.els[nm].plot(starttime=start, stoptime=t, dt=dt, return_df=True)[nm][t]
                else:
                    iv = built.els[nm](t)
                iv = float(iv)
            except Exception as e:
                return "%s(t=%s) raised %r, Euler reference %r" % (nm, t, e, rv)
            if iv != iv:
                continue
            if abs(iv - rv) > 1e-9 * (1 + abs(rv)):
                return "%s(t=%s) = %r, Euler reference %r" % (nm, t, iv, rv)
    return None


def replay(case):
    desc = _desc_from_json(case["desc"])
    spec = tuple(case["spec"])
    envs = [case.get("env", {})] + ALT_ENVS
    for env in envs:
        try:
            d = run_concrete(desc, spec, env, case.get("via_plot", False))
        except Exception as e:
            d = "model construction raised %r" % (e,)
        if d:
            return True, "model {%s} spec %s env %s: %s" % (L.show_model(desc), spec, env, d)
    return False, "model {%s} spec %s: agrees with Euler on %d assignments" % (L.show_model(desc), spec, len(envs))


# ------------------------------------------------------------------ canaries

def canary_flow_unclamped(npx):
    import BPTK_Py.sddsl.flow as fl
    orig = fl.Flow.build_function_string

    def bad(self):
        self._function_string = "lambda model, t : {}".format(self._equation)
    fl.Flow.build_function_string = bad
    try:
        tag, desc = [m for m in structure_models("quick") if m[0] == "struct:in[k-S]"][0]
        st, info = run_symbolic(desc, (0.0, 1.0, 2), 10, npx)
    finally:
        fl.Flow.build_function_string = orig
    return st == "violated"


def canary_stock_reads_flow_at_t(npx):
    import BPTK_Py.sddsl.stock as stk
    orig = stk.Stock.build_function_string

    def bad(self):
        orig(self)
        # integrate the equation at t instead of t-dt
        head, sep, tail = self._function_string.partition("+ model.dt*(")
        if sep:
            self._function_string = head + sep + tail.replace("t-model.dt", "t")
    stk.Stock.build_function_string = bad
    try:
        tag, desc = [m for m in structure_models("quick") if m[0] == "struct:in[k*time]"][0]
        st, info = run_symbolic(desc, (0.0, 1.0, 2), 10, npx)
    finally:
        stk.Stock.build_function_string = orig
    return st == "violated"


# ------------------------------------------------------------------ main

_G = {}


def _task(t):
    tag, desc, spec, via_plot = t
    return run_symbolic(desc, spec, _G["timeout"], _G["npx"], via_plot=via_plot)


def run(tier):
    import BPTK_Py.sddsl.operators as ops
    import BPTK_Py.sddsl.element as el
    import BPTK_Py.sddsl.stock as stk
    import BPTK_Py.sddsl.flow as fl
    import BPTK_Py.sddsl.constant as cst
    from BPTK_Py import Model
    from BPTK_Py.sdsimulation.sd_simulation import SdSimulation
    from BPTK_Py.scenariorunners.sd_runner import SdRunner
    rep = harness.Report(PID, tier, "translation_validation", MODULE)
    rep.encoded(stk.Stock.build_function_string, stk.Stock.initial_value.fset, stk.Stock.equation.fset,
                fl.Flow.build_function_string, el.Element.equation.fset, el.Element.generate_function,
                cst.Constant.equation.fset, Model.memoize, Model._lookup, ops.Delay.term, ops.Smooth.__init__,
                ops.Trend.__init__, ops.Step.term, ops.Pulse.term, ops.Lookup.term, ops.Time.term, ops.DT.term,
                ops.Starttime.term, ops.If.term, ops.extractTerm, ops.UnaryOperator.term, el.Element.plot,
                SdSimulation.start, SdSimulation.change_runspecs, SdRunner._run_scenarios)
    timeout = 20 if tier == "quick" else 60
    models = structure_models(tier) + direct_models(tier)
    sp = specs(tier)
    stubs = harness.Stubs()
    npx = harness.install_sd_stubs(stubs)
    _G["npx"], _G["timeout"] = npx, timeout
    counts = {"holds": 0, "violated": 0, "unknown": 0}
    samples, programs, paths_total = [], 0, 0
    failing = {}
    tasks = []
    for tag, desc in models:
        for si, spec in enumerate(sp):
            if tier == "quick" and si > 0 and tag.startswith("struct:") and (sum(map(ord, tag)) + si) % 3:
                continue                                    # quick: every structure model on the base spec, a third on each other
            tasks.append((tag, desc, spec, False))
    # second observation point: Element.plot(return_df=True) on a subset
    for tag, desc in models:
        if tag in ("struct:in[k*S]-out[k-S]", "direct:stock:el", "struct:two-stocks", "direct:converter:lookup(time)"):
            for spec in sp[:2] + sp[3:4]:
                tasks.append(("plot:" + tag, desc, spec, True))
    # third observation point: bptk.run_scenarios under a scenario whose run specs override those of the model object
    for tag, desc in models:
        if tag in ("struct:in[k*S]-out[k-S]", "direct:stock:el", "struct:two-stocks", "direct:converter:lookup(time)",
                   "direct:flow:delay1", "direct:converter:dt*el", "direct:stock:start+el", "direct:converter:smooth"):
            for spec in sp:
                tasks.append(("run:" + tag, desc, spec, "run"))
    # fourth observation: evaluate, change a constant through the DSL, evaluate again
    for tag, desc in models:
        if tag in ("struct:in[k*S]-out[k-S]", "struct:two-stocks", "struct:in[conv]", "struct:bi[k*S]", "direct:flow:el", "direct:stock:lit*el",
                   "direct:converter:smooth", "direct:flow:delay1"):
            for spec in sp[:2]:
                tasks.append(("edit:" + tag, desc, spec, "edit"))
    try:
        results = harness.pmap(_task, tasks, chunksize=4)
        for (tag, desc, spec, via_plot), (r, err) in zip(tasks, results):
            programs += 1
            if err is not None:
                st, info = "unknown", "worker: %s" % err
            else:
                st, info = r
            counts[st] += 1
            if st == "holds":
                paths_total += info
            elif st == "unknown":
                rep.inconcl("%s %s: %s" % (tag, spec_class(spec), info))
            else:
                failing.setdefault(tag, []).append((spec, info, desc))
            if len(samples) < 10 and (len(samples) < 5 or st != "holds"):
                samples.append({"model": L.show_model(desc), "spec": spec, "verdict": st})
        rep.canary("Flow-without-clamp", canary_flow_unclamped(npx))
        rep.canary("Stock-integrates-equation-at-t", canary_stock_reads_flow_at_t(npx))
    finally:
        stubs.restore()
    base = spec_class(sp[0])
    for tag, lst in failing.items():
        classes = [spec_class(s) for s, _, _ in lst]
        if base in classes:
            chosen = [x for x in lst if spec_class(x[0]) == base][:1]
            sigs = [(tag, chosen[0])]
        else:
            sigs = [("%s@%s" % (tag, spec_class(x[0])), x) for x in lst]
        for sig, (spec, info, desc) in sigs:
            env = {k: float(v) for k, v in info.items() if isinstance(v, (Fraction, int, float)) and not isinstance(v, bool)}
            what = {k: v for k, v in info.items() if k.startswith("_")}
            rep.candidate(sig, {"desc": desc, "spec": list(spec), "env": env,
                                     "via_plot": "run" if tag.startswith("run:") else ("edit" if tag.startswith("edit:") else tag.startswith("plot:"))},
                          "model {%s} %s: %s" % (L.show_model(desc), spec_class(spec), what))
    rep.assume("constants, initial values, literals, lookup y-values are reals (rounding of binary64 values outside the claim); time is concrete",
               "denominators != 0", "exp, round, ** with non-small exponent: uninterpreted functions; sqrt(x) = pow(x,1/2) on both sides",
               "max/min in generated code: ITE stubs; scipy interp1d: piecewise-linear stub (its documented contract)",
               "step(h, ts) reference: h for t > ts (the repository's documented behaviour); pulse on grid indices",
               "stochastic built-ins are outside (C08 covers single-valuedness); arrays are C10")
    rep.coverage.update({"programs": programs, "disagreements_checked": sum(len(v) for v in failing.values()),
                         "samples": samples, "verdicts": counts, "paths": paths_total, "models": len(models),
                         "run_specs": [list(s) for s in sp], "exhaustive": True,
                         "bounds": "model families: %d structure models (1-2 stocks, <=3 flows, 9 flow equations), %d direct/built-in models (35 expression forms x stock/converter/flow/biflow); N<=%d steps" % (
                             len(structure_models(tier)), len(direct_models(tier)), max(s[2] for s in sp)),
                         "outside": "cyclic models, stochastic built-ins, N beyond the bound, dt outside the lattice"})
    return rep.finish()
