"""C04 - transpiled XMILE stock/flow dynamics are Euler-exact for any dt and match the SD DSL.

Engine: vsym (Real mode), time concrete.  One harness-owned description of a stock/flow graph is
written twice: as an .stmx document (REAL compile_xmile -> generated simulation_model) and as SD-DSL
calls (REAL Model API).  Constants, initial values and graphical-function y-values are symbols.  For
every stock/flow/auxiliary and every grid time z3 decides XMILE == Euler reference, DSL == Euler
reference (hence XMILE == DSL).  Time arithmetic (t - dt chains, memo keys, `t <= starttime`) runs
natively in binary64, so an extra or missing integration step shows up as a different term."""
import os
import shutil
import tempfile
from fractions import Fraction

from vsym import terms as T, sym as S, solve, harness
from checks import xmile as X

PID = "C04"
MODULE = "checks.c04"

K1, K2, SID = ("id", "k1"), ("id", "k2"), ("id", "S")


def B(op, l, r):
    return ("bin", op, l, r)


FLOW_EQS = {
    "const": K1,
    "k*S": B("*", K1, SID),
    "S/k": B("/", SID, K2),
    "k-S": B("-", K1, SID),
    "min": ("call", "MIN", SID, K1),
    "aux": ("id", "c1"),
    "gf": ("id", "g1"),
    "if": ("if", ("cmp", ">", SID, K1), K2, SID),
    "k*time": B("*", K1, ("time",)),
}


def graphs(tier):
    """description: dict(consts, aux [(name, eq)], gf [(name, input eq, (xmin, xmax), [ysym])],
                         flows [(name, non_negative, eq)], stocks [(name, init sym, inflows, outflows)])"""
    out = []
    aux = [("c1", B("-", B("*", K1, SID), K2))]
    gf = [("g1", ("time",), (0.0, 4.0), ["y0", "y1", "y2"])]

    def mk(tag, flows, ins, outs, extra_stocks=()):
        return (tag, {"consts": ["k1", "k2"], "aux": aux, "gf": gf, "flows": flows,
                      "stocks": [("S", "s0", ins, outs)] + list(extra_stocks)})
    keys = list(FLOW_EQS)
    for a in keys:
        out.append(mk("in[%s]" % a, [("f1", True, FLOW_EQS[a])], ["f1"], []))
        out.append(mk("out[%s]" % a, [("f1", True, FLOW_EQS[a])], [], ["f1"]))
        out.append(mk("bi[%s]" % a, [("f1", False, FLOW_EQS[a])], ["f1"], []))
    pairs = [("const", "k*S"), ("k*S", "k-S"), ("gf", "S/k"), ("if", "aux"), ("k-S", "min"), ("k*time", "const")]
    if tier == "thorough":
        pairs = [(a, b) for a in keys for b in keys]
    for a, b in pairs:
        out.append(mk("in[%s]-out[%s]" % (a, b), [("f1", True, FLOW_EQS[a]), ("f2", True, FLOW_EQS[b])], ["f1"], ["f2"]))
    out.append(mk("2in-2out", [("f1", True, FLOW_EQS["const"]), ("f2", True, FLOW_EQS["gf"]), ("f3", True, FLOW_EQS["k*S"]),
                               ("f4", False, FLOW_EQS["k-S"])], ["f1", "f2"], ["f3", "f4"]))
    out.append(mk("3in-3out", [("f1", True, FLOW_EQS["const"]), ("f2", True, FLOW_EQS["min"]), ("f3", False, FLOW_EQS["aux"]),
                               ("f4", True, FLOW_EQS["S/k"]), ("f5", True, FLOW_EQS["if"]), ("f6", True, FLOW_EQS["k*time"])],
                  ["f1", "f2", "f3"], ["f4", "f5", "f6"]))
    out.append(mk("chain", [("f1", True, FLOW_EQS["const"]), ("f2", True, FLOW_EQS["k*S"])], ["f1"], ["f2"],
                  extra_stocks=[("S2", "s1", ["f2"], [])]))
    out.append(mk("gf-of-stock", [("f1", True, ("id", "g2"))], ["f1"], []))
    out[-1][1]["gf"] = gf + [("g2", SID, (0.0, 10.0), ["z0", "z1", "z2"])]
    # a graphical function with explicit, unevenly spaced x points (<xpts>)
    out.append(mk("gf-xpts", [("f1", True, ("id", "g3"))], ["f1"], []))
    out[-1][1]["gf"] = gf + [("g3", ("time",), (0.0, 0.5, 1.0, 4.0), ["w0", "w1", "w2", "w3"])]
    return out


def specs(tier):
    """(start, dt as XML, dt value, N)"""
    base = [(0, "<dt>1</dt>", 1.0, 4), (0, "<dt>0.5</dt>", 0.5, 5), (0, "<dt>0.1</dt>", 0.1, 6), (1, "<dt>0.25</dt>", 0.25, 5),
            (0, '<dt reciprocal="true">4</dt>', 0.25, 5), (0, "<dt>0.2</dt>", 0.2, 6),
            # start times that are not multiples of dt / have more decimals than dt
            (0.5, "<dt>1</dt>", 1.0, 4), (0.3, "<dt>0.1</dt>", 0.1, 5), (2.5, "<dt>0.5</dt>", 0.5, 4),
            # a reciprocal dt without a finite decimal expansion (grid 0, 1/3, 2/3, ...)
            (0, '<dt reciprocal="true">3</dt>', 1.0 / 3.0, 6)]
    if tier == "thorough":
        base += [(0, "<dt>0.125</dt>", 0.125, 8), (0, "<dt>0.05</dt>", 0.05, 10), (0, "<dt>0.04</dt>", 0.04, 10),
                 (1, "<dt>0.1</dt>", 0.1, 10), (0, "<dt>0.025</dt>", 0.025, 10), (1, '<dt reciprocal="true">3</dt>', 1.0 / 3.0, 6),
                 (1, '<dt reciprocal="true">8</dt>', 0.125, 8), (0, '<dt reciprocal="true">10</dt>', 0.1, 10), (1, "<dt>0.2</dt>", 0.2, 10)]
    return base


def grid(start, dtv, n, recip=None):
    fs = Fraction(repr(float(start)))
    if abs(dtv - 1.0 / 3.0) < 1e-12:
        return [float(fs + Fraction(k, 3)) for k in range(n + 1)]
    fd = Fraction(repr(dtv))
    return [float(fs + k * fd) for k in range(n + 1)]


PROBE0 = 2001.125


def to_stmx(desc, start, stop, dt_xml):
    st = X.Style()
    vs, probes = [], {}
    for i, c in enumerate(desc["consts"]):
        probes[c] = PROBE0 + i
        vs.append(X.aux(c, repr(probes[c])))
    for i, (sname, init, ins, outs) in enumerate(desc["stocks"]):
        probes[init] = PROBE0 + 50 + i
        vs.append(X.stock(sname, repr(probes[init]), ins, outs))
    for name, eq in desc["aux"]:
        vs.append(X.aux(name, X.render(eq, st)))
    for name, inp, xs, ys in desc["gf"]:
        vs.append(X.aux(name, X.render(inp, st), gf=(xs, [float(i) for i in range(len(ys))])))
    for name, nn, eq in desc["flows"]:
        vs.append(X.flow(name, X.render(eq, st), nn))
    return X.document("c04", repr(start) if isinstance(start, float) else str(start), repr(stop), dt_xml, vs), probes


def gf_points(xs, ys):
    n = len(ys)
    if len(xs) > 2:
        return list(zip(xs, ys))                 # explicit x points (<xpts>), one per y value
    return [(xs[0] + (xs[1] - xs[0]) * i / (n - 1), y) for i, y in enumerate(ys)]


class Euler(object):
    """reference: explicit Euler on grid indices"""

    def __init__(self, desc, ts, dtv, leaf, mathx):
        self.d, self.ts, self.dt, self.leaf, self.mx = desc, ts, dtv, leaf, mathx
        self.memo = {}
        self.kind = {}
        for c in desc["consts"]:
            self.kind[c] = ("const",)
        for a, eq in desc["aux"]:
            self.kind[a] = ("aux", eq)
        for g, inp, xs, ys in desc["gf"]:
            self.kind[g] = ("gf", inp, xs, ys)
        for f, nn, eq in desc["flows"]:
            self.kind[f] = ("flow", nn, eq)
        for s, init, ins, outs in desc["stocks"]:
            self.kind[s] = ("stock", init, ins, outs)

    def val(self, name, k):
        key = (name, k)
        if key in self.memo:
            return self.memo[key]
        kd = self.kind[name]
        ctx = X.Ctx(lambda n: self.val(n, k), self.ts[k], self.dt, self.ts[0], self.ts[-1], self.mx)
        if kd[0] == "const":
            r = self.leaf(name)
        elif kd[0] == "aux":
            r = X.ev(kd[1], ctx)
        elif kd[0] == "gf":
            x = X.ev(kd[1], ctx)
            pts = gf_points(kd[2], [self.leaf(y) for y in kd[3]])
            if x <= pts[0][0]:
                r = pts[0][1]
            elif x >= pts[-1][0]:
                r = pts[-1][1]
            else:
                r = None
                for i in range(len(pts) - 1):
                    if x <= pts[i + 1][0]:
                        (x0, y0), (x1, y1) = pts[i], pts[i + 1]
                        r = y0 + (y1 - y0) * ((x - x0) / (x1 - x0))
                        break
        elif kd[0] == "flow":
            r = X.ev(kd[2], ctx)
            if kd[1]:
                r = S.sym_max(0, r)
        else:
            if k == 0:
                r = self.leaf(kd[1])
            else:
                r = self.val(name, k - 1)
                net = 0
                for f in kd[2]:
                    net = net + self.val(f, k - 1)
                for f in kd[3]:
                    net = net - self.val(f, k - 1)
                r = r + self.dt * net
        self.memo[key] = r
        return r


def names_of(desc):
    return [s[0] for s in desc["stocks"]] + [f[0] for f in desc["flows"]] + [a[0] for a in desc["aux"]] + [g[0] for g in desc["gf"]]


def leaves_of(desc):
    out = list(desc["consts"]) + [s[1] for s in desc["stocks"]]
    for g in desc["gf"]:
        out += g[3]
    return out


def build_dsl(desc, start, stop, dtv, leaf):
    """the same graph through the REAL SD-DSL API"""
    from BPTK_Py import Model
    from BPTK_Py import sd_functions as sd
    m = Model(starttime=float(start), stoptime=float(stop), dt=float(dtv), name="dsl")
    els = {}
    for c in desc["consts"]:
        els[c] = m.constant(c)
    for a, _ in desc["aux"]:
        els[a] = m.converter(a)
    for g in desc["gf"]:
        els[g[0]] = m.converter(g[0])
    for f, nn, _ in desc["flows"]:
        els[f] = m.flow(f) if nn else m.biflow(f)
    for s in desc["stocks"]:
        els[s[0]] = m.stock(s[0])

    def go(t):
        k = t[0]
        if k == "id":
            return els[t[1]]
        if k == "num":
            return float(t[1])
        if k == "time":
            return sd.time()
        if k == "paren":
            return go(t[1])
        if k == "neg":
            return -go(t[1])
        if k == "bin":
            a, b = go(t[2]), go(t[3])
            return {"+": lambda: a + b, "-": lambda: a - b, "*": lambda: a * b, "/": lambda: a / b, "^": lambda: a ** b}[t[1]]()
        if k == "call":
            args = [go(x) for x in t[2:]]
            return {"MIN": sd.min, "MAX": sd.max, "ABS": sd.abs}[t[1]](*args)
        if k == "if":
            c = t[1]
            l, r = go(c[2]), go(c[3])
            cond = {"=": lambda: l == r, "<>": lambda: l != r, "<": lambda: l < r, "<=": lambda: l <= r, ">": lambda: l > r, ">=": lambda: l >= r}[c[1]]()
            return sd.If(cond, go(t[2]), go(t[3]))
        raise ValueError(k)
    for c in desc["consts"]:
        els[c].equation = 1.0
        m.equations[c] = (lambda v: (lambda t: v))(leaf(c))
    for a, eq in desc["aux"]:
        els[a].equation = go(eq)
    for g, inp, xs, ys in desc["gf"]:
        m.points[g] = [[x, leaf(y)] for (x, _), y in zip(gf_points(xs, ys), ys)]
        els[g].equation = sd.lookup(go(inp), g)
    for f, nn, eq in desc["flows"]:
        els[f].equation = go(eq) if eq[0] != "id" else 1.0 * go(eq)
    for s, init, ins, outs in desc["stocks"]:
        ic = m.constant("init_" + s)
        ic.equation = 1.0
        m.equations["init_" + s] = (lambda v: (lambda t: v))(leaf(init))
        els[s].initial_value = ic
        net = None
        for f in ins:
            net = els[f] if net is None else net + els[f]
        for f in outs:
            net = (-1.0 * els[f]) if net is None else net - els[f]
        if net is not None:
            els[s].equation = net if not hasattr(net, "name") else 1.0 * net
    return m


def run_pair(desc, spec, mode, scratch, env=None):
    """-> list of (name, k, xmile value, dsl value, reference value)"""
    start, dt_xml, dtv, n = spec
    ts = grid(start, dtv, n)
    if mode == "sym":
        leaf = lambda nm: S.v(nm)
    else:
        leaf = lambda nm: float((env or {}).get(nm, _default(nm)))
    text, probes = to_stmx(desc, start, ts[-1], dt_xml)
    mod = X.compile_doc(text, scratch, stubs=(mode == "sym"))
    xm = mod.simulation_model()
    keys = X.find_keys(xm, probes, float(start))
    # stock initial values are literals inside the stock equation: find the stock key by its probe at t=start
    for c in desc["consts"]:
        if c not in keys:
            raise KeyError("constant %s not found in the transpiled model" % c)
        xm.equations[keys[c]] = (lambda v: (lambda t: v))(leaf(c))
    name_key = {}
    lower = {k.lower(): k for k in xm.equations}
    for nm in names_of(desc):
        if nm.lower() in lower:
            name_key[nm] = lower[nm.lower()]
        else:
            raise KeyError("variable %s not found in the transpiled model (%s)" % (nm, list(xm.equations)))
    # initial values: the generated stock lambda embeds the literal; replace the literal by patching the
    # equation through a wrapper that substitutes the value at t <= starttime
    for s, init, ins, outs in desc["stocks"]:
        orig = xm.equations[name_key[s]]
        xm.equations[name_key[s]] = (lambda o, v: (lambda t: v if t <= xm.starttime else o(t)))(orig, leaf(init))
    for g, inp, xs, ys in desc["gf"]:
        # only the y values are replaced by symbols: the x points stay the ones the REAL parser derived from the document
        parsed = list(xm.points[name_key[g]])
        if len(parsed) != len(ys):
            raise KeyError("graphical function %s has %d points in the transpiled model, the document lists %d" % (g, len(parsed), len(ys)))
        xm.points[name_key[g]] = [(float(px), leaf(y)) for (px, _), y in zip(parsed, ys)]
    for k_ in xm.memo:
        xm.memo[k_] = {}                     # the key probing above memoised probe values
    dm = build_dsl(desc, start, ts[-1], dtv, leaf)
    mx = mod.__dict__.get("math") if mode == "sym" else X.MathX()
    ref = Euler(desc, ts, dtv, leaf, mx)
    out = []
    for k, t in enumerate(ts):
        for nm in names_of(desc):
            try:
                xv = xm.memoize(name_key[nm], t)
            except RecursionError:
                raise
            try:
                dv = dm.memoize(nm, t)
            except RecursionError:
                raise
            out.append((nm, k, t, xv, dv, ref.val(nm, k)))
    return out, (xm.starttime, xm.stoptime, xm.dt)


def _default(n):
    h = sum(ord(ch) * (i + 1) for i, ch in enumerate(n))
    return [1.5, 2.25, 0.75, 3.5, 0.5, 4.0, 6.5][h % 7]


def check_pair(desc, spec, timeout_s, scratch):
    def run():
        try:
            return ("ok",) + run_pair(desc, spec, "sym", scratch)
        except (S.SymbolicEscape, S.PathCapExceeded, S.SolverUnknown, S.InfeasiblePath):
            raise
        except Exception as e:
            import traceback
            return ("exc", e, traceback.format_exc()[-600:])
    try:
        paths = S.explore(run, max_paths=200)
    except (S.PathCapExceeded, S.SolverUnknown, S.SymbolicEscape) as e:
        return "unknown", "explore: %r" % (e,)
    start, dt_xml, dtv, n = spec
    for p in paths:
        if p.exc is not None:
            return "unknown", "harness: %r" % (p.exc,)
        if p.out[0] == "exc":
            return "violated", {"_what": "raised %r" % (p.out[1],), "_side": "xmile", "_tb": p.out[2]}
        vals, specs_read = p.out[1], p.out[2]
        if abs(float(specs_read[2]) - dtv) > 1e-12 or float(specs_read[0]) != float(start):
            return "violated", {"_what": "transpiled run specs are %r, document says start=%s dt=%s" % (specs_read, start, dtv), "_side": "runspecs"}
        for nm, k, t, xv, dv, rv in vals:
            tr = S.term_of(rv)
            for side, val in (("xmile", xv), ("dsl", dv)):
                try:
                    ti = S.term_of(val)
                except TypeError:
                    return "violated", {"_what": "%s: %s(%s) is not a number: %r" % (side, nm, t, val), "_side": side}
                v = solve.prove_equal(ti, tr, p.pc, timeout_s=timeout_s)
                if v.status == "violated":
                    info = solve.complete_model(v.model, ti, tr, *p.pc)
                    info["_what"] = "%s: %s(t=%s) differs from the Euler trajectory" % (side, nm, t)
                    info["_side"] = side
                    return "violated", info
                if v.status == "unknown":
                    return "unknown", "%s %s(%s): %s" % (side, nm, t, v.detail)
    return "holds", len(paths)


def replay(case):
    desc = _from_json(case["desc"])
    spec = tuple(case["spec"])
    scratch = tempfile.mkdtemp(prefix="c04-")
    try:
        for env in (case.get("env", {}), {}, {"k1": 0.5, "k2": 4.0, "s0": 10.0, "s1": 1.0, "y0": 5.0, "y1": 1.0, "y2": 3.0, "z0": 1.0, "z1": 2.0, "z2": 0.5}):
            try:
                vals, sr = run_pair(desc, spec, "float", scratch, env)
            except Exception as e:
                return True, "graph %s spec %s: raised %r" % (case.get("tag"), spec, e)
            for nm, k, t, xv, dv, rv in vals:
                for side, val in (("transpiled XMILE model", xv), ("SD-DSL model", dv)):
                    a, b = float(val), float(rv)
                    if abs(a - b) > 1e-9 * (1 + abs(b)):
                        return True, "graph %s, start=%s dt=%s: %s gives %s(t=%s) = %r, the Euler trajectory is %r (env %s)" % (
                            case.get("tag"), spec[0], spec[2], side, nm, t, a, b, env or "defaults")
        return False, "graph %s spec %s: both models follow the Euler trajectory" % (case.get("tag"), spec)
    finally:
        shutil.rmtree(scratch, ignore_errors=True)


def _from_json(d):
    def tup(x):
        if isinstance(x, list):
            return tuple(tup(y) for y in x)
        return x
    return {"consts": list(d["consts"]), "aux": [(a, tup(e)) for a, e in d["aux"]],
            "gf": [(g, tup(i), tuple(xs), list(ys)) for g, i, xs, ys in d["gf"]],
            "flows": [(f, nn, tup(e)) for f, nn, e in d["flows"]],
            "stocks": [(s, i, list(a), list(b)) for s, i, a, b in d["stocks"]]}


def canary_non_negative_dropped(scratch):
    mod = __import__("sys").modules["BPTK_Py.sdcompiler.parsers.xmile.xmile"]
    import inspect
    src = inspect.getsource(mod)
    # the parser wraps non-negative flows in max(0, .): emulate its absence by rendering the flow as bidirectional
    tag, desc = [g for g in graphs("quick") if g[0] == "in[k-S]"][0]
    d2 = dict(desc)
    d2["flows"] = [(f, False, eq) for f, nn, eq in desc["flows"]]
    # reference keeps the clamp: XMILE side (without clamp) must differ
    st, info = _check_with_ref(d2, desc, (0, "<dt>1</dt>", 1.0, 3), scratch)
    return st == "violated"


def _check_with_ref(desc_impl, desc_ref, spec, scratch):
    """impl built from desc_impl, reference from desc_ref (canary helper)"""
    def run():
        start, dt_xml, dtv, n = spec
        vals, sr = run_pair(desc_impl, spec, "sym", scratch)
        ts = grid(start, dtv, n)
        ref = Euler(desc_ref, ts, dtv, lambda nm: S.v(nm), X.MathX())
        return [(nm, k, xv, ref.val(nm, k)) for nm, k, t, xv, dv, rv in vals]
    try:
        paths = S.explore(run, max_paths=50)
    except BaseException as e:  # noqa
        return "unknown", repr(e)
    for p in paths:
        if p.exc is not None:
            return "unknown", repr(p.exc)
        for nm, k, xv, rv in p.out:
            v = solve.prove_equal(S.term_of(xv), S.term_of(rv), p.pc, timeout_s=10)
            if v.status == "violated":
                return "violated", None
    return "holds", None


_G = {}


def _task(t):
    tag, desc, spec = t
    scratch = tempfile.mkdtemp(prefix="c04-", dir=_G["scratch"])
    try:
        return check_pair(desc, spec, _G["timeout"], scratch)
    finally:
        shutil.rmtree(scratch, ignore_errors=True)


def run(tier):
    import sys
    from BPTK_Py.sdcompiler.compile import compile_xmile
    se = sys.modules["BPTK_Py.sdcompiler.plugins.stockExpressions"]
    gen = sys.modules["BPTK_Py.sdcompiler.generator.py.py"]
    xp = sys.modules["BPTK_Py.sdcompiler.parsers.xmile.xmile"]
    from BPTK_Py import Model
    rep = harness.Report(PID, tier, "translation_validation", MODULE)
    rep.encoded(compile_xmile, se.StockExpressions, gen.previous, xp.parse_xmile, Model.memoize)
    _G["timeout"] = 20 if tier == "quick" else 60
    _G["scratch"] = os.environ.get("VCHECK_SCRATCH", tempfile.gettempdir())
    stubs = harness.Stubs()
    harness.install_sd_stubs(stubs)
    gs = graphs(tier)
    sp = specs(tier)
    tasks = []
    for gi, (tag, desc) in enumerate(gs):
        forky = any(eq[0] == "if" for _, _, eq in desc["flows"]) or any(inp != ("time",) for _, inp, _, _ in desc["gf"])
        for si, spec in enumerate(sp):
            if tier == "quick" and si > 0 and (gi + si) % 3:
                continue
            if forky:
                # every step of an IF / stock-driven lookup forks the path: keep the number of steps small
                spec = (spec[0], spec[1], spec[2], min(spec[3], 3 if tag != "3in-3out" else 2))
            tasks.append((tag, desc, spec))
    counts = {"holds": 0, "violated": 0, "unknown": 0}
    samples, bad, paths_total = [], [], 0
    try:
        results = harness.pmap(_task, tasks, chunksize=2)
        for (tag, desc, spec), (r, err) in zip(tasks, results):
            st, info = ("unknown", err) if err else r
            counts[st] += 1
            if st == "holds":
                paths_total += info
            elif st == "violated":
                bad.append((tag, desc, spec, info))
            else:
                rep.inconcl("%s %s: %s" % (tag, spec[1], info))
            if len(samples) < 10 and (len(samples) < 4 or st != "holds"):
                samples.append({"graph": tag, "start": spec[0], "dt": spec[1], "steps": spec[3], "verdict": st,
                                "info": str(info.get("_what") if isinstance(info, dict) else "")[:160]})
        scratch = tempfile.mkdtemp(prefix="c04-c-", dir=_G["scratch"])
        try:
            rep.canary("non-negative-flow-not-clamped", canary_non_negative_dropped(scratch))
        finally:
            shutil.rmtree(scratch, ignore_errors=True)
    finally:
        stubs.restore()
    seen = set()
    for tag, desc, spec, info in bad:
        side = info.get("_side", "?")
        base = spec[2] == 1.0
        sig = "%s:%s" % (side, tag) if base else "%s:dt=%s" % (side, spec[1].replace("<dt", "").replace("</dt>", "").replace(">", "").replace('"', "").strip())
        if sig in seen:
            continue
        seen.add(sig)
        env = {k: float(v) for k, v in info.items() if isinstance(v, (Fraction, int, float)) and not isinstance(v, bool)}
        rep.candidate(sig, {"desc": desc, "spec": list(spec), "env": env, "tag": tag}, "graph %s, start=%s %s: %s" % (tag, spec[0], spec[1], info.get("_what")))
    rep.assume("constants, initial values and graphical-function y-values are reals (symbols); time is concrete binary64 on the dt lattice",
               "generated-module names max/min/sum/math/np/interp1d/float are vsym stubs (ITE merge, piecewise-linear interpolation)",
               "stock initial values are substituted by wrapping the generated stock lambda at t <= starttime (the literal itself is concrete in the document)")
    rep.coverage.update({"programs": len(tasks), "disagreements_checked": len(bad), "samples": samples, "verdicts": counts, "paths": paths_total,
                         "graphs": len(gs), "run_specs": [[s[0], s[1], s[3]] for s in sp], "exhaustive": True,
                         "bounds": "stock/flow graphs with 0-3 inflows and 0-3 outflows, 9 flow equations, non-negative and bidirectional flows, auxiliaries, graphical functions of TIME and of a stock, 2-stock chain; N <= 10 steps",
                         "outside": "dt outside the lattice, N > 10, arrays, built-in delay/smooth families"})
    return rep.finish()
