"""C13 - agent statistics equal the aggregates of the agent population.

Engine: vsym (Real mode).  The real DataCollector.collect_agent_statistics, Model.statistics and
HybridRunner.get_df_for_agent run on real Agent objects whose numeric property values are
symbols; max/min in the collector's namespace are ITE-merging stubs (Python semantics), so every
statistic is ONE term.  The oracle is a specification, not a re-implementation:
  count == n;  total == sum;  max >= every value and max is one of them;  min dually;
  mean * count == total;  flattened column (state, property, aggregate) carries the same term;
  0 where a state is empty at that time.
"""
import itertools
from fractions import Fraction

from vsym import terms as T, sym as S, solve, harness

PID = "C13"
MODULE = "checks.c13"

TYPES = ["A", "B"]
STATES = ["s1", "s2"]
COMBOS = [(t, s) for t in TYPES for s in STATES]
PROPS = {"A": [("p", "Double"), ("q", "Integer"), ("label", "String")], "B": [("p", "Double")]}
AGGT = ["total", "max", "min", "mean"]


def shapes(tier):
    nmax = 4 if tier == "quick" else 6
    out = []
    for n in range(0, nmax + 1):
        for seq in itertools.product(range(4), repeat=n):
            # symmetry: first use of combos in canonical order within the same type/state relabeling is NOT
            # applied - order matters for the incremental aggregation, so all sequences are kept for n<=3;
            # for larger n only sequences whose first element is combo 0 or 2 (type A/s1 or B/s1)
            if n >= 4 and seq[0] not in (0, 2):
                continue
            out.append(seq)
    return out


def make_population(seq, values, second=False):
    """real Model + Agent objects; values(name) -> property value"""
    from BPTK_Py import Model, Agent, DataCollector
    m = Model(starttime=0, stoptime=2, dt=1, data_collector=DataCollector())
    agents = []
    for i, ci in enumerate(seq):
        ty, st = COMBOS[ci]
        if second:                                   # second time point: every second agent changed state
            if i % 2 == 0:
                st = STATES[1 - STATES.index(st)]
        props = {}
        for pn, pt in PROPS[ty]:
            if pt == "String":
                props[pn] = {"type": "String", "value": "x%d" % i}
            else:
                props[pn] = {"type": pt, "value": values("%s%d%s" % (pn, i, "b" if second else ""))}
        a = Agent(i, m, props, agent_type=ty)
        a.state = st
        agents.append(a)
    m.agents = agents
    return m


def groups(seq, second=False):
    g = {}
    for i, ci in enumerate(seq):
        ty, st = COMBOS[ci]
        if second and i % 2 == 0:
            st = STATES[1 - STATES.index(st)]
        g.setdefault((ty, st), []).append(i)
    return g


def spec_cell(stat, vals, n, kind):
    """specification of one aggregate as a bool term"""
    st = S.term_of(stat)
    vs = [S.term_of(v) for v in vals]
    if kind == "total":
        tot = T.ZERO
        for v in reversed(vs):                       # deliberately not the collector's summation order
            tot = T.add(v, tot)
        return T.cmp("eq", st, tot)
    if kind == "max":
        f = T.FALSE
        for v in vs:
            f = T.or_(f, T.cmp("eq", st, v))
        for v in vs:
            f = T.and_(f, T.cmp("ge", st, v))
        return f
    if kind == "min":
        f = T.FALSE
        for v in vs:
            f = T.or_(f, T.cmp("eq", st, v))
        for v in vs:
            f = T.and_(f, T.cmp("le", st, v))
        return f
    if kind == "mean":
        tot = T.ZERO
        for v in vs:
            tot = T.add(tot, v)
        return T.cmp("eq", T.mul(st, T.const(n)), tot)
    raise ValueError(kind)


def check_shape(seq, timeout_s):
    from BPTK_Py.scenariorunners.hybrid_runner import HybridRunner
    m1 = make_population(seq, S.v, False)
    m2 = make_population(seq, S.v, True)

    def run():
        dc = m1.data_collector
        dc.reset()
        dc.collect_agent_statistics(1.0, m1.agents)
        dc.collect_agent_statistics(2.0, m2.agents)
        stats = m1.statistics()
        frames = {}
        hr = HybridRunner.__new__(HybridRunner)
        for ty in TYPES:
            numeric = [pn for pn, pt in PROPS[ty] if pt != "String"]
            frames[(ty, "count")] = hr.get_df_for_agent(stats, ty, STATES, [], [])
            frames[(ty, "props")] = hr.get_df_for_agent(stats, ty, STATES, numeric, AGGT)
        return stats, frames
    try:
        paths = S.explore(run, max_paths=64)
    except (S.PathCapExceeded, S.SolverUnknown, S.SymbolicEscape) as e:
        return "unknown", "explore: %r" % (e,), 0
    cells = 0
    for p in paths:
        if p.exc is not None:
            if len(seq) == 0:
                continue
            return "violated", {"_exception": repr(p.exc)}, cells
        stats, frames = p.out
        for tindex, (tm, mm) in enumerate(((1.0, m1), (2.0, m2))):
            g = groups(seq, tindex == 1)
            row = stats.get(tm, {})
            # no phantom groups
            for ty, per_state in row.items():
                for st in per_state:
                    if (ty, st) not in g:
                        return "violated", {"_phantom": "%s/%s at t=%s" % (ty, st, tm)}, cells
            for (ty, st), members in g.items():
                cell = row.get(ty, {}).get(st)
                if cell is None:
                    return "violated", {"_missing": "%s/%s at t=%s" % (ty, st, tm)}, cells
                n = len(members)
                if cell.get("count") != n:
                    return "violated", {"_count": "%s/%s at t=%s: %r != %d" % (ty, st, tm, cell.get("count"), n)}, cells
                cells += 1
                for pn, pt in PROPS[ty]:
                    if pt == "String":
                        if pn in cell:
                            return "violated", {"_nonnumeric_aggregated": pn}, cells
                        continue
                    vals = [mm.agents[i].properties[pn]["value"] for i in members]
                    for kind in AGGT:
                        if kind not in cell.get(pn, {}):
                            return "violated", {"_missing": "%s/%s/%s/%s" % (ty, st, pn, kind)}, cells
                        f = spec_cell(cell[pn][kind], vals, n, kind)
                        v = solve.prove(f, p.pc, timeout_s=timeout_s)
                        cells += 1
                        if v.status == "violated":
                            mdl = solve.complete_model(v.model, f, *p.pc)
                            mdl["_cell"] = "%s/%s/%s/%s at t=%s" % (ty, st, pn, kind, tm)
                            return "violated", mdl, cells
                        if v.status == "unknown":
                            return "unknown", v.detail, cells
                        # flattened column carries the same term
                        df = frames[(ty, "props")]
                        col = "%s_%s_%s" % (st, pn, kind)
                        try:
                            dv = df[col][tm]
                        except Exception as e:
                            return "violated", {"_df_missing": "%s at t=%s (%r)" % (col, tm, e)}, cells
                        v2 = solve.prove_equal(S.term_of(dv), S.term_of(cell[pn][kind]), p.pc, timeout_s=timeout_s)
                        cells += 1
                        if v2.status != "holds":
                            mdl = solve.complete_model(v2.model, *p.pc) if v2.model else {}
                            mdl["_df_cell"] = "%s at t=%s" % (col, tm)
                            return ("violated" if v2.status == "violated" else "unknown"), mdl, cells
                dfc = frames[(ty, "count")]
                try:
                    if dfc[st][tm] != n:
                        return "violated", {"_df_count": "%s/%s at t=%s: %r != %d" % (ty, st, tm, dfc[st][tm], n)}, cells
                except Exception as e:
                    return "violated", {"_df_missing": "%s/%s count at t=%s (%r)" % (ty, st, tm, e)}, cells
            # zero where a state is empty at this time but populated at the other
            other = groups(seq, tindex == 0)
            for (ty, st) in other:
                if (ty, st) not in g:
                    dfc = frames[(ty, "count")]
                    try:
                        z = dfc[st][tm]
                    except Exception as e:
                        if tm in getattr(dfc, "index", []):
                            return "violated", {"_df_missing": "%s/%s at t=%s (%r)" % (ty, st, tm, e)}, cells
                        continue
                    if S.is_sym(z) or z != 0:
                        return "violated", {"_df_empty_not_zero": "%s/%s at t=%s: %r" % (ty, st, tm, z)}, cells
                    cells += 1
    return "holds", None, cells


# ------------------------------------------------------------------ replay

def replay(case):
    import math
    if case.get("kind") == "run_scenarios":
        from checks import c13_run
        return c13_run.replay(case)
    seq = tuple(case["seq"])
    env = case.get("env", {})
    alts = [env, {}, {"_alt": 1}]
    for k, e in enumerate(alts):
        def values(name, e=e, k=k):
            if name in e:
                return float(e[name])
            h = sum(ord(c) * (i + 3) for i, c in enumerate(name))
            return [1.0, -2.5, 3.0, 0.0, 7.25, -1.0][(h + k) % 6]
        from BPTK_Py.scenariorunners.hybrid_runner import HybridRunner
        m1 = make_population(seq, values, False)
        m2 = make_population(seq, values, True)
        dc = m1.data_collector
        try:
            dc.collect_agent_statistics(1.0, m1.agents)
            dc.collect_agent_statistics(2.0, m2.agents)
            stats = m1.statistics()
            hr = HybridRunner.__new__(HybridRunner)
            frames = {}
            for ty in TYPES:
                numeric = [pn for pn, pt in PROPS[ty] if pt != "String"]
                frames[(ty, "count")] = hr.get_df_for_agent(stats, ty, STATES, [], [])
                frames[(ty, "props")] = hr.get_df_for_agent(stats, ty, STATES, numeric, AGGT)
        except Exception as ex:
            if seq:
                return True, "population %s: statistics raised %r" % (seq, ex)
            continue
        for tindex, (tm, mm) in enumerate(((1.0, m1), (2.0, m2))):
            g = groups(seq, tindex == 1)
            row = stats.get(tm, {})
            for ty, per_state in row.items():
                for st in per_state:
                    if (ty, st) not in g:
                        return True, "phantom group %s/%s at t=%s" % (ty, st, tm)
            for (ty, st), members in g.items():
                cell = row.get(ty, {}).get(st)
                if cell is None or cell.get("count") != len(members):
                    return True, "population %s: count of %s/%s at t=%s is %r, expected %d" % (seq, ty, st, tm, cell and cell.get("count"), len(members))
                for pn, pt in PROPS[ty]:
                    if pt == "String":
                        continue
                    vals = [float(mm.agents[i].properties[pn]["value"]) for i in members]
                    want = {"total": sum(vals), "max": max(vals), "min": min(vals), "mean": sum(vals) / len(vals)}
                    for kind in AGGT:
                        got = cell.get(pn, {}).get(kind)
                        if got is None or abs(float(got) - want[kind]) > 1e-9 * (1 + abs(want[kind])):
                            return True, "population %s values %s: %s/%s/%s/%s at t=%s is %r, expected %r" % (seq, vals, ty, st, pn, kind, tm, got, want[kind])
                        try:
                            dv = frames[(ty, "props")]["%s_%s_%s" % (st, pn, kind)][tm]
                        except Exception as ex:
                            return True, "population %s: dataframe column %s_%s_%s missing at t=%s (%r)" % (seq, st, pn, kind, tm, ex)
                        if abs(float(dv) - want[kind]) > 1e-9 * (1 + abs(want[kind])):
                            return True, "population %s: dataframe %s_%s_%s at t=%s is %r, expected %r" % (seq, st, pn, kind, tm, dv, want[kind])
                try:
                    if frames[(ty, "count")][st][tm] != len(members):
                        return True, "population %s: dataframe count %s/%s at t=%s wrong" % (seq, ty, st, tm)
                except Exception as ex:
                    return True, "population %s: dataframe count column %s missing (%r)" % (seq, st, ex)
    return False, "population %s: statistics agree with the aggregates" % (seq,)


# ------------------------------------------------------------------ canaries

def canary_mean_stale():
    """mean computed before the count is incremented (off-by-one population)"""
    import BPTK_Py.modeling.dataCollector as dcm
    orig = dcm.DataCollector.collect_agent_statistics

    def bad(self, time, agents):
        orig(self, time, agents)
        for ty, per in self.agent_statistics[time].items():
            for st, cell in per.items():
                for k, v in cell.items():
                    if isinstance(v, dict) and cell["count"] > 1:
                        v["mean"] = v["total"] / (cell["count"] - 1)
    dcm.DataCollector.collect_agent_statistics = bad
    try:
        st, info, _ = check_shape((0, 0, 1), 10)
    finally:
        dcm.DataCollector.collect_agent_statistics = orig
    return st == "violated"


def canary_min_is_first():
    import BPTK_Py.modeling.dataCollector as dcm
    old = dcm.__dict__["min"]
    dcm.__dict__["min"] = lambda a, b: a
    try:
        st, info, _ = check_shape((0, 0), 10)
    finally:
        dcm.__dict__["min"] = old
    return st == "violated"


# ------------------------------------------------------------------ main

_G = {}


def _task(seq):
    return check_shape(seq, _G["timeout"])


def run(tier):
    import BPTK_Py.modeling.dataCollector as dcm
    from BPTK_Py.scenariorunners.hybrid_runner import HybridRunner
    from BPTK_Py import Model
    rep = harness.Report(PID, tier, "model_checking", MODULE)
    rep.encoded(dcm.DataCollector.collect_agent_statistics, dcm.DataCollector.statistics, Model.statistics,
                HybridRunner.get_df_for_agent, HybridRunner.run_scenario)
    _G["timeout"] = 20 if tier == "quick" else 60
    stubs = harness.Stubs()
    stubs.set("BPTK_Py.modeling.dataCollector", "max", S.sym_max)
    stubs.set("BPTK_Py.modeling.dataCollector", "min", S.sym_min)
    sh = shapes(tier)
    counts = {"holds": 0, "violated": 0, "unknown": 0}
    samples, cells_total, bad = [], 0, []
    try:
        results = harness.pmap(_task, sh, chunksize=8)
        for seq, (r, err) in zip(sh, results):
            if err:
                st, info, cells = "unknown", err, 0
            else:
                st, info, cells = r
            counts[st] += 1
            cells_total += cells
            if st == "violated":
                bad.append((seq, info))
            elif st == "unknown":
                rep.inconcl("population %s: %s" % (seq, info))
            if len(samples) < 8 and (len(seq) >= 3 or st != "holds"):
                samples.append({"population": [COMBOS[c] for c in seq], "verdict": st})
        # part 2: what bptk.run_scenarios returns for agents (df / dict / json) through the real HybridRunner
        from checks import c13_run, scen
        scen.install_json_hooks(stubs)
        part2 = 0
        combos = [(n, variant, fmt, 1.0) for n in ((2, 3) if tier == "quick" else (2, 3, 4)) for variant in (0, 1, 2, 3) for fmt in ("df", "dict", "json")]
        # fractional recorded times, incl. a dt with three decimals
        combos += [(2, variant, fmt, dt_) for dt_ in (0.5, 0.125) for variant in (0, 3) for fmt in ("df", "dict", "json")]
        for (n, variant, fmt, dt_) in combos:
                if True:
                    part2 += 1
                    r = c13_run.check(n, variant, fmt, _G["timeout"], spec_cell, dt=dt_)
                    if r is None:
                        continue
                    what, mdl = r
                    if what.startswith("UNKNOWN"):
                        rep.inconcl("run_scenarios n=%d variant=%d %s: %s" % (n, variant, fmt, what))
                    else:
                        env = {k: float(v) for k, v in (mdl or {}).items() if isinstance(v, (Fraction, int, float)) and not isinstance(v, bool)}
                        kind = "missing" if "missing" in what else ("empty-not-zero" if "empty" in what else ("count" if "count" in what else ("raised" if "raised" in what else "aggregate")))
                        rep.candidate("run_scenarios:%s:%s" % (fmt, kind), {"kind": "run_scenarios", "n": n, "variant": variant, "fmt": fmt, "env": env, "dt": dt_}, what)
        rep.canary("mean-divides-by-count-minus-one", canary_mean_stale())
        rep.canary("min-keeps-first-value", canary_min_is_first())
    finally:
        stubs.restore()
    for seq, info in bad:
        what = sorted(k for k in info if k.startswith("_"))
        kind = what[0] if what else "_cell"
        detail = str(info.get(kind, ""))
        sig = "%s:%s" % (kind.strip("_"), detail.split(" at ")[0].split("/")[-1] if kind == "_cell" else kind.strip("_"))
        env = {k: float(v) for k, v in info.items() if isinstance(v, (Fraction, int, float)) and not isinstance(v, bool)}
        rep.candidate(sig, {"seq": list(seq), "env": env}, "population %s: %s" % ([COMBOS[c] for c in seq], {k: info[k] for k in what}))
    rep.assume("property values are reals (Integer properties too); max/min in the collector namespace are ITE stubs with Python semantics",
               "agents of one type share one property set (as agent factories produce them)",
               "populations <= %d agents over 2 types x 2 states, 2 recorded times with state changes" % (4 if tier == "quick" else 6))
    rep.coverage.update({"states": len(sh) + part2, "run_scenarios_cases": part2, "transitions": cells_total, "traces_validated_against_impl": len(bad),
                         "samples": samples, "verdicts": counts, "exhaustive": True,
                         "explanation": "states = population shapes explored; transitions = statistic cells (solver obligations) decided",
                         "outside": "populations beyond the bound, non-numeric properties, a state that is never populated during the run"})
    return rep.finish()
