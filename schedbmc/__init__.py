"""schedbmc - thread schedules as solver variables.

1. `extract.py`-style helpers classify the statements of the real functions (from their AST, every
   run) into shared-state operations with their line numbers.
2. The interleaving is encoded for z3 with one integer timestamp per operation instance (program order,
   lock exclusion and read-from relations as constraints); the solver chooses the schedule.
3. `Enforcer` forces a schedule on the REAL code: real threads, sys.settrace line events restricted to
   the extracted code objects; a thread may execute its next classified statement only when all earlier
   entries of the schedule have completed.
"""
import sys
import threading
import time


class Enforcer(object):
    """order: list of (thread_name, key).  watch: {code_object: {lineno: key or callable(frame)->key}}.
    A thread reaching a watched line whose key is its next scheduled entry blocks until every earlier
    entry has finished; the entry finishes when the same thread reaches its next watched line or ends."""

    def __init__(self, order, watch, timeout=10.0):
        self.order = list(order)
        self.watch = watch
        self.timeout = timeout
        self.cv = threading.Condition()
        self.finished = [False] * len(self.order)
        self.started = [False] * len(self.order)
        self.current = {}            # thread name -> index of its entry in progress
        self.failed = None
        self.log = []

    def _next_index(self, name, key):
        for i, (n, k) in enumerate(self.order):
            if not self.started[i] and n == name:
                return i if k == key else None
        return None

    def _finish_current(self, name):
        i = self.current.pop(name, None)
        if i is not None:
            self.finished[i] = True
            self.cv.notify_all()

    def arrive(self, name, key):
        with self.cv:
            self._finish_current(name)
            i = self._next_index(name, key)
            if i is None:
                # an operation the schedule does not contain for this thread next: let it run (recorded)
                self.log.append((name, key, "unscheduled"))
                return
            deadline = time.time() + self.timeout
            while not all(self.finished[:i]):
                left = deadline - time.time()
                if left <= 0 or self.failed:
                    self.failed = self.failed or "timeout waiting for entry %d %r" % (i, self.order[i])
                    self.cv.notify_all()
                    return
                self.cv.wait(left)
            self.started[i] = True
            self.current[name] = i
            self.log.append((name, key, i))

    def thread_done(self, name):
        with self.cv:
            self._finish_current(name)

    def tracer(self, name):
        watch = self.watch

        def local(frame, event, arg):
            if event == "line":
                m = watch.get(frame.f_code)
                if m is not None:
                    k = m.get(frame.f_lineno)
                    if k is not None:
                        if callable(k):
                            k = k(frame)
                        if k is not None:
                            self.arrive(name, k)
            return local

        def glob(frame, event, arg):
            if frame.f_code in watch:
                return local(frame, event, arg) or local
            return glob if event == "call" else None
        return glob, local

    def run(self, bodies):
        """bodies: {thread_name: callable}; returns {thread_name: result or exception}"""
        results = {}

        def wrap(name, fn):
            g, l = self.tracer(name)

            def tr(frame, event, arg):
                if event == "call":
                    return l if frame.f_code in self.watch else tr
                return tr
            sys.settrace(tr)
            try:
                results[name] = fn()
            except BaseException as e:  # noqa
                results[name] = e
            finally:
                sys.settrace(None)
                self.thread_done(name)
        ths = [threading.Thread(target=wrap, args=(n, f), name=n) for n, f in bodies.items()]
        for t in ths:
            t.start()
        for t in ths:
            t.join(self.timeout * 3)
        return results
