#!/bin/bash
# usage: tools/seed_confirm.sh Cxx [seed-dir]   -- confirms a seeded change in its scratch worktree /tmp/wt_Cxx
#   (patch applies, demo exits 0 without / 1 with the change, baseline tests still pass with it)
ID=$1; WT=/tmp/wt_$ID; SD=${2:-/tmp/w/seed_$ID}
set -u
cd $WT || exit 9
git checkout -q -- . ; git clean -fdq
PYTHONPATH=$WT /venv/bin/python $SD/demo.py > $SD/demo_without.log 2>&1; A=$?
git apply $SD/patch.diff || { echo "$ID: patch does not apply"; exit 8; }
PYTHONPATH=$WT /venv/bin/python $SD/demo.py > $SD/demo_with.log 2>&1; B=$?
OUT=$(mktemp -d)
PYTHONPATH=$WT /venv/bin/python -m pytest -q -p no:cacheprovider --timeout=900 --continue-on-collection-errors --junitxml=$OUT/j.xml tests > $OUT/log 2>&1
/venv/bin/python - $OUT/j.xml <<'PY' > $SD/baseline_with.log
import json, sys, xml.etree.ElementTree as ET
want=set(json.load(open('/root/.vp/BASELINE.json'))['stable_pass']); got=set()
for tc in ET.parse(sys.argv[1]).getroot().iter('testcase'):
    if not any(c.tag in ('failure','error','skipped') for c in tc): got.add(tc.get('classname')+'::'+tc.get('name'))
print("baseline with change: %d/%d" % (len(want&got), len(want))); [print("  FAILED", m) for m in sorted(want-got)]
PY
rm -rf $OUT
git checkout -q -- . ; git clean -fdq
echo "$ID: demo without=$A with=$B; $(head -1 $SD/baseline_with.log)"
