#!/bin/bash
# usage: tools/seed_regress.sh  -- every stored seed against the quick tier of its property; expects exit 1 + VIOLATION each time
cd /verif
for d in seeded/*/; do
  id=$(basename $d); c=$(python3 -c "import json,sys;print(json.load(open(sys.argv[1]))[\"detected_by\"][\"check\"])" $d/meta.json)
  git -C /repo diff --quiet || { echo "/repo not clean"; exit 9; }
  git -C /repo apply /verif/$d/patch.diff || { echo "$id: patch does not apply"; continue; }
  s=$(date +%s)
  out=$(./vcheck $c --tier quick 2>&1); rc=$?
  git -C /repo checkout -- .
  echo "$id rc=$rc $(( $(date +%s) - s ))s $(echo "$out" | grep -c '^VIOLATION') viol $(echo "$out" | grep -c '^INCONCLUSIVE') inconcl"
done
