#!/bin/bash
# usage: tools/seed_run.sh <patch.diff> <check ids...>  -- applies the patch to /repo, runs the checks (quick), undoes it
P=$(readlink -f $1); shift
git -C /repo diff --quiet || { echo "/repo not clean"; exit 9; }
git -C /repo apply $P || { echo "patch does not apply to /repo"; exit 8; }
for c in "$@"; do
  echo "=== $c"
  /verif/vcheck $c --tier ${TIER:-quick} 2>&1 | grep -v "^  signature" | cut -c1-300 | tail -6
done
git -C /repo checkout -- .
git -C /repo status --short | head -3
