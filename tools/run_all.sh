#!/bin/bash
# usage: tools/run_all.sh [quick|thorough]  -- every check in sequence on the current /repo tree; summary on stdout
T=${1:-quick}
cd /verif
for c in C01 C02 C03 C04 C05 C06 C07 C08 C09 C10 C11 C12 C13 C14 C15 C16 C17 C18 C19 C20; do
  s=$(date +%s)
  out=$(./vcheck $c --tier $T 2>&1); rc=$?
  echo "$c rc=$rc $(( $(date +%s) - s ))s $(echo "$out" | grep -c '^KNOWN-FINDING') known $(echo "$out" | grep -c '^VIOLATION') viol $(echo "$out" | grep -c '^INCONCLUSIVE') inconcl"
done
