#!/bin/bash
# runs the repository's pinned baseline (guard OFF) and compares with BASELINE.json's stable_pass list
unset TRANSENTIS_BPTK_PY_VERIF
OUT=$(mktemp -d)
cd /repo && /venv/bin/python -m pytest -ra -q -p no:cacheprovider --timeout=900 --continue-on-collection-errors --junitxml=$OUT/junit.xml >$OUT/log.txt 2>&1
/venv/bin/python - "$OUT/junit.xml" <<'PY'
import json, sys, xml.etree.ElementTree as ET
base = json.load(open('/root/.vp/BASELINE.json'))
want = set(base['stable_pass'])
got = set()
for tc in ET.parse(sys.argv[1]).getroot().iter('testcase'):
    name = tc.get('classname') + '::' + tc.get('name')
    if not any(c.tag in ('failure', 'error', 'skipped') for c in tc):
        got.add(name)
missing = sorted(want - got)
print("baseline: %d/%d stable tests pass" % (len(want & got), len(want)))
for m in missing:
    print("  MISSING/FAILED:", m)
sys.exit(1 if missing else 0)
PY
rc=$?
tail -5 $OUT/log.txt
rm -rf $OUT
exit $rc
