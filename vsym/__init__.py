"""vsym - value-symbolic execution of the real BPTK-Py code (see DESIGN.md section 2.1)"""
from .sym import v, SymReal, SymBool, SymLit, symstr  # noqa
