"""python -m vsym.replay <file> | --batch <files...>: re-run stored counterexamples against the
real code (no proxies, no stubs).  Single file: exit 1 = violation reproduced, 0 = not."""
import importlib
import json
import os
import shutil
import sys
import tempfile
import traceback


def one(path):
    with open(path) as f:
        data = json.load(f)
    mod = importlib.import_module(data["module"])
    try:
        ok, text = mod.replay(data["case"])
    except Exception:
        traceback.print_exc()
        return -1, "replay raised"
    return (1 if ok else 0), "%s\n%s %s signature=%s" % (text, "REPRODUCED" if ok else "NOT-REPRODUCED",
                                                       data["property"], data.get("signature"))


def main():
    args = sys.argv[1:]
    batch = args and args[0] == "--batch"
    if batch:
        args = args[1:]
    args = [os.path.abspath(a) for a in args]
    d = tempfile.mkdtemp(prefix="vsym-replay-")
    os.chdir(d)
    code = 0
    try:
        from vsym import harness
        harness.quiet_logging()
        for p in args:
            r, text = one(p)
            if batch:
                print("RESULT %s %d" % (p, r))
            else:
                print(text)
                code = r if r in (0, 1) else 2
            sys.stdout.flush()
    finally:
        os.chdir("/")
        shutil.rmtree(d, ignore_errors=True)
    sys.stdout.flush()
    os._exit(code)


if __name__ == "__main__":
    main()
