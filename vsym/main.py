"""python -m vsym.main <Cxx> [--tier quick|thorough]"""
import argparse
import importlib
import os
import shutil
import sys
import tempfile
import traceback


def main():
    ap = argparse.ArgumentParser()
    ap.add_argument("pid")
    ap.add_argument("--tier", default=os.environ.get("VERIF_TIER", "quick"), choices=["quick", "thorough"])
    a = ap.parse_args()
    pid = a.pid.upper()
    if a.tier == "thorough":
        os.environ.setdefault("VERIF_CROSS", "6")      # per process: cvc5 re-checks the first non-trivial z3 verdicts
        # wall-time budget of each parallel map and limit per task; what is not reached is reported as not explored
        os.environ.setdefault("VERIF_BUDGET_S", "900")
        os.environ.setdefault("VERIF_TASK_TIMEOUT_S", "240")
    scratch = tempfile.mkdtemp(prefix="vcheck-%s-" % pid)
    os.environ["VCHECK_SCRATCH"] = scratch
    os.chdir(scratch)
    code = 2
    try:
        from vsym import harness
        harness.quiet_logging()
        mod = importlib.import_module("checks.%s" % pid.lower())
        code = mod.run(a.tier)
    except SystemExit as e:
        code = e.code if isinstance(e.code, int) else 2
    except BaseException:
        traceback.print_exc()
        print("INCONCLUSIVE: harness error in %s" % pid)
        code = 2
    finally:
        os.chdir("/")
        shutil.rmtree(scratch, ignore_errors=True)
    sys.stdout.flush()
    sys.stderr.flush()
    os._exit(code)


if __name__ == "__main__":
    main()
