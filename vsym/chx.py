"""CrossHair runner: one OS process per condition, parses verdicts and counterexample calls.

Only "Confirmed over all paths" counts as holding.  A counterexample message is parsed back into
concrete Python arguments; the calling check replays them on the real code without CrossHair
before anything is reported.
"""
import ast
import os
import re
import subprocess
import sys
import time
from concurrent.futures import ThreadPoolExecutor

from . import harness

VERDICT_CONFIRMED = "confirmed"
VERDICT_CEX = "counterexample"
VERDICT_NOT_CONFIRMED = "not_confirmed"
VERDICT_NO_PRE = "unable_to_meet_precondition"
VERDICT_ERROR = "error"
VERDICT_SKIPPED = "skipped"

STATS = {"conditions": 0, "confirmed": 0, "counterexamples": 0, "inconclusive": 0, "crosshair_s": 0.0, "slowest_condition_s": 0.0}


def find_line(path, funcname):
    with open(path) as f:
        for i, line in enumerate(f, 1):
            if re.match(r"\s*def %s\(" % re.escape(funcname), line):
                return i + 1
    raise KeyError(funcname)


class Result(object):
    def __init__(self, func, verdict, message="", args=None, seconds=0.0, raw=""):
        self.func, self.verdict, self.message, self.args, self.seconds, self.raw = func, verdict, message, args, seconds, raw

    def __repr__(self):
        return "<%s %s %.1fs %s>" % (self.func, self.verdict, self.seconds, self.message[:100])


def parse_call(message, funcname):
    """'false when calling f(a=1, b=[..]) (which returns ...)' -> dict of args (or None)"""
    m = re.search(r"when calling (%s\(.*)$" % re.escape(funcname), message, re.S)
    if not m:
        return None
    text = m.group(1)
    # cut at the matching parenthesis
    depth, end = 0, None
    in_str = None
    for i, ch in enumerate(text):
        if in_str:
            if ch == in_str and text[i - 1] != "\\":
                in_str = None
            continue
        if ch in "\"'":
            in_str = ch
        elif ch == "(":
            depth += 1
        elif ch == ")":
            depth -= 1
            if depth == 0:
                end = i + 1
                break
    if end is None:
        return None
    call = text[:end]
    # CrossHair prints aliased values with walrus syntax ([v1:=(2, 0), v1]); this is valid Python, so the
    # call text is evaluated with the function name bound to an argument collector (own tool output only)
    def collect(*a, **k):
        d = {"_pos%d" % i: v for i, v in enumerate(a)}
        d.update(k)
        return d
    try:
        return eval(call, {"__builtins__": {"float": float, "True": True, "False": False, "None": None}, funcname: collect})
    except Exception:
        return None


def run_condition(path, funcname, timeout_s, extra_env=None, per_path_timeout=None):
    line = find_line(path, funcname)
    env = dict(os.environ)
    env["PYTHONPATH"] = harness.REPO + os.pathsep + harness.VERIF
    env["PYTHONHASHSEED"] = "0"
    if extra_env:
        env.update(extra_env)
    cmd = [sys.executable, "-m", "crosshair", "check", "--report_all", "--per_condition_timeout", str(timeout_s)]
    if per_path_timeout:
        cmd += ["--per_path_timeout", str(per_path_timeout)]
    cmd.append("%s:%d" % (path, line))
    t0 = time.time()
    try:
        r = subprocess.run(cmd, env=env, capture_output=True, text=True, timeout=timeout_s * 3 + 120,
                           cwd=os.environ.get("VCHECK_SCRATCH", "/tmp"))
        out = r.stdout + r.stderr
    except subprocess.TimeoutExpired:
        out = "hard timeout"
    dt = time.time() - t0
    STATS["conditions"] += 1
    STATS["crosshair_s"] += dt
    STATS["slowest_condition_s"] = round(max(STATS["slowest_condition_s"], dt), 1)
    verdict, msg, args = VERDICT_ERROR, out[-600:], None
    for ln in out.splitlines():
        if ": error:" in ln:
            verdict, msg = VERDICT_CEX, ln.split(": error:", 1)[1].strip()
            args = parse_call(msg, funcname)
            break
        if "Confirmed over all paths" in ln:
            verdict, msg = VERDICT_CONFIRMED, ln
        elif "Not confirmed" in ln:
            verdict, msg = VERDICT_NOT_CONFIRMED, ln
        elif "Unable to meet precondition" in ln:
            verdict, msg = VERDICT_NO_PRE, ln
    if verdict == VERDICT_CONFIRMED:
        STATS["confirmed"] += 1
    elif verdict == VERDICT_CEX:
        STATS["counterexamples"] += 1
    else:
        STATS["inconclusive"] += 1
    return Result(funcname, verdict, msg, args, dt, out[-2000:])


def run_conditions(path, jobs, workers=None):
    """jobs: list of (funcname, timeout_s, extra_env or None) -> list of Result (same order)"""
    workers = workers or harness.nprocs()
    with ThreadPoolExecutor(max_workers=workers) as ex:
        futs = [ex.submit(run_condition, path, f, t, e) for (f, t, e) in jobs]
        return [f.result() for f in futs]


def run_jobs(jobs, budget_s=None, workers=None):
    """jobs: list of (path, funcname, timeout_s, extra_env, required).  Required jobs always run with their own
    timeout.  Optional jobs (the thorough tier's deeper slices) share a wall-time budget: one that is not started
    before the deadline is skipped, one that is running has its timeout cut to what is left.  -> list of Result"""
    workers = workers or harness.nprocs()
    if budget_s is None:
        budget_s = float(os.environ.get("VERIF_BUDGET_S", "0") or 0) or None
    deadline = (time.time() + budget_s) if budget_s else None

    def one(j):
        path, fn, tmo, env, required = j
        if not required and deadline is not None:
            left = deadline - time.time()
            if left < 20:
                return Result(fn, VERDICT_SKIPPED, "not started within the time budget")
            tmo = max(20, min(tmo, int(left)))
        return run_condition(path, fn, tmo, env)
    # required jobs first, so that the budget only ever cuts optional ones
    order = sorted(range(len(jobs)), key=lambda i: (not jobs[i][4], i))
    out = [None] * len(jobs)
    with ThreadPoolExecutor(max_workers=workers) as ex:
        futs = {i: ex.submit(one, jobs[i]) for i in order}
        for i, f in futs.items():
            out[i] = f.result()
    return out


def unfinished(rep, label, r, required):
    """files a condition that is neither confirmed nor refuted: inconclusive when it is part of the claim (required),
    not explored when it is an optional deeper slice that CrossHair did not finish within its time"""
    text = "%s: CrossHair verdict %s (%s)" % (label, r.verdict, r.message[:200])
    if not required and r.verdict in (VERDICT_SKIPPED, VERDICT_NOT_CONFIRMED, VERDICT_ERROR, VERDICT_NO_PRE):
        rep.inconcl(harness.SKIP_MARK + ": " + text)
    else:
        rep.inconcl(text)
