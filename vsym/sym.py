"""Proxies (SymReal, SymBool), the path explorer and the name-rebinding stubs.

Proxies are plain Python objects (not float subclasses) so numpy/pandas keep them as
opaque ``object`` entries.  ``SymBool.__bool__`` is the only fork point.
"""
import threading
import math
from fractions import Fraction
from . import terms as T

_NUM = (int, float, Fraction)


def _is_np_number(x):
    try:
        import numpy as np
        return isinstance(x, (np.integer, np.floating, np.bool_))
    except Exception:
        return False


def lift(x):
    """python value / proxy -> real-sorted term (or None when not convertible)"""
    if isinstance(x, SymReal):
        return x.t
    if isinstance(x, SymBool):
        return T.b2r(x.t)
    if isinstance(x, bool):
        return T.ONE if x else T.ZERO
    if isinstance(x, _NUM):
        return T.const(x)
    if _is_np_number(x):
        return T.const(x.item() if not isinstance(x.item(), bool) else int(x.item()))
    return None


def liftb(x):
    if isinstance(x, SymBool):
        return x.t
    if isinstance(x, bool):
        return T.TRUE if x else T.FALSE
    if isinstance(x, SymReal):
        return T.cmp("ne", x.t, T.ZERO)
    if isinstance(x, _NUM) or _is_np_number(x):
        return T.TRUE if x != 0 else T.FALSE
    return None


def wrap(t):
    if t.sort == "B":
        if t is T.TRUE:
            return True
        if t is T.FALSE:
            return False
        return SymBool(t)
    return SymReal(t)


class SymReal(object):
    __slots__ = ("t",)
    __array_ufunc__ = None  # numpy defers to our reflected operators

    def __init__(self, t):
        self.t = t

    def __deepcopy__(self, memo):
        return self

    def __copy__(self):
        return self

    # -- arithmetic
    def _bin(self, other, f, swap=False):
        o = lift(other)
        if o is None:
            return NotImplemented
        return SymReal(f(o, self.t) if swap else f(self.t, o))

    def __add__(self, o): return self._bin(o, T.add)
    def __radd__(self, o): return self._bin(o, T.add, True)
    def __sub__(self, o): return self._bin(o, T.sub)
    def __rsub__(self, o): return self._bin(o, T.sub, True)
    def __mul__(self, o): return self._bin(o, T.mul)
    def __rmul__(self, o): return self._bin(o, T.mul, True)
    def __truediv__(self, o): return self._bin(o, T.div)
    def __rtruediv__(self, o): return self._bin(o, T.div, True)
    def __neg__(self): return SymReal(T.neg(self.t))
    def __pos__(self): return self

    def __abs__(self):
        return SymReal(T.ite(T.cmp("ge", self.t, T.ZERO), self.t, T.neg(self.t)))

    def __pow__(self, o, mod=None):
        return sym_pow(self, o)

    def __rpow__(self, o):
        return sym_pow(o, self)

    def __mod__(self, o):
        b = lift(o)
        if b is None:
            return NotImplemented
        return SymReal(T.uf("pymod", (self.t, b)))

    def __rmod__(self, o):
        a = lift(o)
        if a is None:
            return NotImplemented
        return SymReal(T.uf("pymod", (a, self.t)))

    def __floordiv__(self, o):
        b = lift(o)
        if b is None:
            return NotImplemented
        return SymReal(T.uf("pyfloordiv", (self.t, b)))

    def __round__(self, n=None):
        if n is None:
            return SymReal(T.uf("pyround0", (self.t,)))
        d = lift(n)
        return SymReal(T.uf("pyround", (self.t, d)))

    def __int__(self):
        raise SymbolicEscape("int() of a symbolic value")

    def __float__(self):
        raise SymbolicEscape("float() of a symbolic value")

    def __index__(self):
        raise SymbolicEscape("index() of a symbolic value")

    # -- comparisons
    def _cmp(self, other, op):
        o = lift(other)
        if o is None:
            return NotImplemented
        return wrap(T.cmp(op, self.t, o))

    def __lt__(self, o): return self._cmp(o, "lt")
    def __le__(self, o): return self._cmp(o, "le")
    def __gt__(self, o): return self._cmp(o, "gt")
    def __ge__(self, o): return self._cmp(o, "ge")
    def __eq__(self, o): return self._cmp(o, "eq")
    def __ne__(self, o): return self._cmp(o, "ne")
    def __hash__(self): return hash(self.t.id)

    def __bool__(self):
        return bool(wrap(T.cmp("ne", self.t, T.ZERO)))

    def __repr__(self):
        return "Sym(%s)" % T.show(self.t)

    __str__ = __repr__


class SymBool(object):
    __slots__ = ("t",)
    __array_ufunc__ = None

    def __init__(self, t):
        self.t = t

    def __deepcopy__(self, memo):
        return self

    def __copy__(self):
        return self

    def __bool__(self):
        return decide(self.t)

    def __and__(self, o):
        b = liftb(o)
        return NotImplemented if b is None else wrap(T.and_(self.t, b))
    __rand__ = __and__

    def __or__(self, o):
        b = liftb(o)
        return NotImplemented if b is None else wrap(T.or_(self.t, b))
    __ror__ = __or__

    def __invert__(self):
        return wrap(T.not_(self.t))

    def _r(self):
        return SymReal(T.b2r(self.t))

    def __add__(self, o): return self._r() + o
    def __radd__(self, o): return o + self._r()
    def __sub__(self, o): return self._r() - o
    def __rsub__(self, o): return o - self._r()
    def __mul__(self, o): return self._r() * o
    def __rmul__(self, o): return o * self._r()
    def __truediv__(self, o): return self._r() / o
    def __rtruediv__(self, o): return o / self._r()
    def __neg__(self): return -self._r()
    def __abs__(self): return self._r()
    def __pow__(self, o): return self._r() ** o
    def __rpow__(self, o): return o ** self._r()
    def __mod__(self, o): return self._r() % o
    def __rmod__(self, o): return o % self._r()
    def __lt__(self, o): return self._r() < o
    def __le__(self, o): return self._r() <= o
    def __gt__(self, o): return self._r() > o
    def __ge__(self, o): return self._r() >= o

    def __eq__(self, o):
        if isinstance(o, (SymBool, bool)):
            return wrap(T.beq(self.t, liftb(o)))
        return self._r() == o

    def __ne__(self, o):
        r = self.__eq__(o)
        if isinstance(r, bool):
            return not r
        return ~r

    def __hash__(self): return hash(self.t.id)

    def __round__(self, n=None):
        return round(self._r(), n)

    def __repr__(self):
        return "SymB(%s)" % T.show(self.t)


class SymbolicEscape(BaseException):
    """a symbolic value reached code the engine cannot follow (C boundary)"""


def is_sym(x):
    return isinstance(x, (SymReal, SymBool))


def term_of(x):
    """term of any result value (bools -> 0/1)"""
    t = lift(x)
    if t is None:
        raise TypeError("not a numeric result: %r" % (x,))
    return t


def v(name):
    """a named real symbol; this is what string constants like "__import__('vsym').v('k')"
    evaluate to inside the code under test"""
    return SymReal(T.var(name, "R"))


def sym_pow(a, b):
    ta, tb = lift(a), lift(b)
    if ta is None or tb is None:
        return NotImplemented
    if T.is_const(tb):
        e = T.cval(tb)
        if e.denominator == 1 and 0 <= e.numerator <= 4:
            return SymReal(T.powi(ta, e.numerator))
    if T.is_const(ta) and T.is_const(tb):
        return SymReal(T.const(float(T.cval(ta)) ** float(T.cval(tb))))
    return SymReal(T.uf("pow", (ta, tb)))


# ------------------------------------------------------------------ stubs (ITE merging)

def sym_max(*args, **kw):
    if len(args) == 1:
        args = tuple(args[0])
    if kw or not any(is_sym(a) for a in args):
        import builtins
        return builtins.max(*args, **kw)
    r = args[0]
    for b in args[1:]:
        tr, tb = lift(r), lift(b)
        c = T.cmp("gt", tb, tr)          # python: take b iff b > current
        r = _merge(c, b, r, tb, tr)
    return r


def sym_min(*args, **kw):
    if len(args) == 1:
        args = tuple(args[0])
    if kw or not any(is_sym(a) for a in args):
        import builtins
        return builtins.min(*args, **kw)
    r = args[0]
    for b in args[1:]:
        tr, tb = lift(r), lift(b)
        c = T.cmp("lt", tb, tr)
        r = _merge(c, b, r, tb, tr)
    return r


def _merge(c, x, y, tx, ty):
    if c is T.TRUE:
        return x
    if c is T.FALSE:
        return y
    return SymReal(T.ite(c, tx, ty))


def sym_sum(it, start=0):
    r = start
    for x in it:
        r = r + x
    return r


def sym_sorted(it, reverse=False, key=None):
    """sorting network over ITE (bubble), only used when symbolic values are present"""
    xs = list(it)
    if key is not None or not any(is_sym(a) for a in xs):
        import builtins
        return builtins.sorted(xs, reverse=reverse, key=key)
    ts = [lift(x) for x in xs]
    n = len(ts)
    for i in range(n):
        for j in range(n - 1 - i):
            a, b = ts[j], ts[j + 1]
            c = T.cmp("le", a, b)
            ts[j], ts[j + 1] = T.ite(c, a, b), T.ite(c, b, a)
    if reverse:
        ts = ts[::-1]
    return [SymReal(t) if not T.is_const(t) else float(T.cval(t)) for t in ts]


class _FloatMeta(type):
    def __instancecheck__(cls, obj):
        import builtins
        return isinstance(obj, builtins.float)

    def __subclasscheck__(cls, sub):
        import builtins
        return issubclass(sub, builtins.float)


class sym_float(float, metaclass=_FloatMeta):
    """stand-in for the name `float`: float(x) passes proxies through; isinstance(x, float) keeps working"""

    def __new__(cls, x=0.0):
        if is_sym(x):
            return x if isinstance(x, SymReal) else x._r()
        import builtins
        return builtins.float(x)


def sym_floor(x):
    """math.floor: exact in the solver (to_int)"""
    if is_sym(x):
        return SymReal(T.uf("floor", (lift(x),)))
    import math
    return math.floor(x)


class _IntMeta(type):
    def __instancecheck__(cls, obj):
        import builtins
        return isinstance(obj, builtins.int)

    def __subclasscheck__(cls, sub):
        import builtins
        return issubclass(sub, builtins.int)


class sym_int(int, metaclass=_IntMeta):
    """stand-in for the name `int`: int(x) of a proxy is truncation towards zero (floor for x >= 0, -floor(-x) below),
    an integer-valued SymReal; isinstance(x, int) keeps working"""

    def __new__(cls, x=0, *a):
        if is_sym(x):
            x = x if isinstance(x, SymReal) else x._r()
            pos = SymReal(T.uf("floor", (x.t,)))
            neg = SymReal(T.neg(T.uf("floor", (T.neg(x.t),))))
            return SymReal(T.ite(T.cmp("ge", x.t, T.ZERO), pos.t, neg.t))
        import builtins
        return builtins.int(x, *a)


def sym_ite(c, a, b):
    """harness-side helper: ite over python values / proxies"""
    tc = liftb(c)
    if tc is T.TRUE:
        return a
    if tc is T.FALSE:
        return b
    return SymReal(T.ite(tc, lift(a), lift(b)))


class _Interp1d(object):
    """piecewise linear interpolation between the given points (scipy's documented
    contract for kind='linear'), x-values concrete, y-values possibly symbolic"""

    def __init__(self, xs, ys, *a, **k):
        self.xs = [float(x) for x in xs]
        self.ys = list(ys)

    def __call__(self, x):
        xs, ys = self.xs, self.ys
        if not is_sym(x):
            x = float(x)
            if x < xs[0] or x > xs[-1]:
                raise ValueError("A value in x_new is outside the interpolation range.")
            for i in range(len(xs) - 1):
                if xs[i] <= x <= xs[i + 1]:
                    return ys[i] + (ys[i + 1] - ys[i]) * ((x - xs[i]) / (xs[i + 1] - xs[i]))
        r = None
        for i in range(len(xs) - 2, -1, -1):
            seg = ys[i] + (ys[i + 1] - ys[i]) * ((x - xs[i]) / (xs[i + 1] - xs[i]))
            if r is None:
                r = seg
            else:
                r = sym_ite(x <= xs[i + 1], seg, r)
        return r


class NpProxy(object):
    """stand-in for the name ``np`` in namespaces where generated code is evaluated"""

    def __init__(self):
        import numpy
        self._np = numpy
        self.random = RandomStub("np.random")

    def __getattr__(self, name):
        return getattr(self._np, name)

    def _uf1(name):
        def f(self, x):
            if is_sym(x):
                return SymReal(T.uf(name, (lift(x),)))
            return getattr(self._np, name)(x)
        return f

    exp = _uf1("exp"); sin = _uf1("sin"); cos = _uf1("cos"); tan = _uf1("tan")
    arccos = _uf1("arccos"); arcsin = _uf1("arcsin"); arctan = _uf1("arctan")
    log = _uf1("log"); log10 = _uf1("log10"); sqrt = _uf1("sqrt")

    @staticmethod
    def _flat(arr):
        out = []
        for a in arr:
            if isinstance(a, (list, tuple)):
                out.extend(NpProxy._flat(a))
            else:
                out.append(a)
        return out

    def mean(self, arr):
        xs = self._flat(arr)
        if not any(is_sym(x) for x in xs):
            return self._np.mean(arr)
        return sym_sum(xs) / len(xs)

    def median(self, arr):
        xs = self._flat(arr)
        if not any(is_sym(x) for x in xs):
            return self._np.median(arr)
        s = sym_sorted(xs)
        n = len(s)
        return s[n // 2] if n % 2 else (s[n // 2 - 1] + s[n // 2]) / 2

    def std(self, arr):
        xs = self._flat(arr)
        if not any(is_sym(x) for x in xs):
            return self._np.std(arr)
        m = sym_sum(xs) / len(xs)
        var = sym_sum([(x - m) * (x - m) for x in xs]) / len(xs)
        return sym_pow(var, 0.5)


class RandomStub(object):
    """every call returns a fresh symbol (nondeterministic stub)"""
    counter = [0]
    log = []

    def __init__(self, prefix):
        self._prefix = prefix

    def __getattr__(self, name):
        def draw(*args, **kw):
            RandomStub.counter[0] += 1
            nm = "rnd%d_%s" % (RandomStub.counter[0], name)
            RandomStub.log.append(nm)
            return v(nm)
        return draw


# ------------------------------------------------------------------ path exploration

class _Ctx(object):
    def __init__(self, decisions):
        self.decisions = dict(decisions)     # cond term id -> (term, bool)
        self.order = []                      # [(term, value, was_fork)] in first-seen order
        self.lock = threading.RLock()


_current = [None]
UNKNOWN_FEAS = [0]
_feasible = [None]     # callable(list_of_bool_terms) -> True/False/None, installed by solve.py


class PathCapExceeded(BaseException):
    pass


def decide(cond):
    if cond is T.TRUE:
        return True
    if cond is T.FALSE:
        return False
    ctx = _current[0]
    if ctx is None:
        raise SymbolicEscape("truth value of a symbolic condition outside an exploration: %s" % T.show(cond))
    with ctx.lock:
        base, flip = (cond.args[0], True) if cond.op == "not" else (cond, False)
        hit = ctx.decisions.get(base.id)
        if hit is not None:
            return (not hit[1]) if flip else hit[1]
        pc = [t if val else T.not_(t) for (t, val) in ctx.decisions.values()]
        can_t = _feasible[0](pc + [base])
        can_f = _feasible[0](pc + [T.not_(base)])
        if can_t is None or can_f is None:
            # over-approximate: an undecided branch is explored (sound for 'holds': only adds paths;
            # violations need a model of the whole path condition anyway)
            can_t = True if can_t is None else can_t
            can_f = True if can_f is None else can_f
            UNKNOWN_FEAS[0] += 1
        if can_t and can_f:
            val, fork = True, True
        elif can_t:
            val, fork = True, False
        elif can_f:
            val, fork = False, False
        else:
            raise InfeasiblePath()
        ctx.decisions[base.id] = (base, val)
        ctx.order.append((base, val, fork))
        return (not val) if flip else val


def assume(cond):
    """constrain the current path with `cond` (a Bool term or SymBool) without forking"""
    cond = cond.t if isinstance(cond, SymBool) else cond
    if cond is True or cond is T.TRUE:
        return
    if cond is False or cond is T.FALSE:
        raise InfeasiblePath()
    ctx = _current[0]
    if ctx is None:
        raise SymbolicEscape("assume outside an exploration")
    with ctx.lock:
        base, want = (cond.args[0], False) if cond.op == "not" else (cond, True)
        hit = ctx.decisions.get(base.id)
        if hit is not None:
            if hit[1] != want:
                raise InfeasiblePath()
            return
        pc = [t if val else T.not_(t) for (t, val) in ctx.decisions.values()]
        if _feasible[0](pc + [cond]) is False:
            raise InfeasiblePath()
        ctx.decisions[base.id] = (base, want)
        ctx.order.append((base, want, False))


def fresh(prefix, integer=False):
    """a fresh symbol of the current path (deterministic name: the n-th fresh symbol of the run); integer symbols
    are declared Int in the solver (names starting with int$)"""
    ctx = _current[0]
    if ctx is None:
        raise SymbolicEscape("fresh symbol outside an exploration")
    with ctx.lock:
        ctx.nfresh = getattr(ctx, "nfresh", 0) + 1
        return SymReal(T.var("%s%s$%d" % ("int$" if integer else "aux$", prefix, ctx.nfresh)))


class SolverUnknown(BaseException):
    pass


class InfeasiblePath(BaseException):
    pass


class Path(object):
    __slots__ = ("pc", "out", "exc")

    def __init__(self, pc, out, exc):
        self.pc, self.out, self.exc = pc, out, exc


def explore(fn, max_paths=256, assumptions=()):
    """run fn() once per feasible path; returns list of Path.
    fn's exceptions (Exception only) are path outcomes."""
    queue = [{}]
    paths = []
    base = {}
    for a in assumptions:
        b, val = (a.args[0], False) if a.op == "not" else (a, True)
        base[b.id] = (b, val)
    queue = [dict(base)]
    while queue:
        if len(paths) >= max_paths:
            raise PathCapExceeded(max_paths)
        dec = queue.pop()
        ctx = _Ctx(dec)
        prev = _current[0]
        _current[0] = ctx
        out = exc = None
        try:
            out = fn()
        except InfeasiblePath:
            _current[0] = prev
            continue
        except (SolverUnknown, PathCapExceeded):
            _current[0] = prev
            raise
        except Exception as e:  # noqa: path outcome
            exc = e
        finally:
            _current[0] = prev
        pc = [t if val else T.not_(t) for (t, val) in ctx.decisions.values()]
        paths.append(Path(pc, out, exc))
        # schedule the alternatives of the forks first seen in this run
        d = dict(dec)
        for (t, val, fork) in ctx.order:
            if fork:
                alt = dict(d)
                alt[t.id] = (t, not val)
                queue.append(alt)
            d[t.id] = (t, val)
    return paths


# ------------------------------------------------------------------ literals that render as symbols

class SymLit(float):
    """a float (passes isinstance(x, float) guards of the DSL) whose textual rendering is a
    Python expression evaluating to a symbol; its float value is only a placeholder"""

    def __new__(cls, name, placeholder=1.0):
        o = float.__new__(cls, placeholder)
        o.symname = name
        return o

    def __str__(self):
        return "__import__('vsym').v(%r)" % self.symname

    __repr__ = __str__

    def __format__(self, spec):
        return str(self)


def symstr(name):
    """string form accepted wherever the code under test eval()s a constant"""
    return "__import__('vsym').v(%r)" % name
