"""z3 back end (all z3 work happens in ONE dedicated thread), SMT-LIB2 printing for the
second solver, statistics."""
import time
import subprocess
import tempfile
import os
import shutil
from concurrent.futures import ThreadPoolExecutor
from fractions import Fraction
from . import terms as T
from . import sym as S

_exec = ThreadPoolExecutor(max_workers=1, thread_name_prefix="z3")
_cache = {}
_ufdecl = {}
FEAS_TIMEOUT = [5.0]
CROSS = {"limit": int(__import__("os").environ.get("VERIF_CROSS", "0"))}

STATS = {"queries": 0, "sat": 0, "unsat": 0, "unknown": 0, "solver_s": 0.0, "feas_queries": 0,
         "fastpath": 0, "cross_checked": 0, "cross_disagree": 0, "smt_samples": []}


def zrun(f, *a, **k):
    return _exec.submit(f, *a, **k).result()


def _z3():
    import z3
    return z3


def _tr(t):
    """term -> z3 expr (iterative post-order, cached)"""
    z3 = _z3()
    r = _cache.get(t.id)
    if r is not None:
        return r
    stack = [(t, False)]
    while stack:
        n, done = stack.pop()
        if n.id in _cache:
            continue
        kids = n.args[1:] if n.op == "uf" else (() if n.op in ("const", "var", "true", "false") else n.args)
        if not done:
            stack.append((n, True))
            for k in kids:
                if k.id not in _cache:
                    stack.append((k, False))
            continue
        a = [_cache[k.id] for k in kids]
        op = n.op
        if op == "const":
            v = T.cval(n)
            e = z3.RealVal(str(v.numerator)) if v.denominator == 1 else z3.Q(v.numerator, v.denominator)
        elif op == "var":
            if n.sort != "R":
                e = z3.Bool(n.args[0])
            elif n.args[0].startswith("int$"):
                e = z3.ToReal(z3.Int(n.args[0]))
            else:
                e = z3.Real(n.args[0])
        elif op == "true":
            e = z3.BoolVal(True)
        elif op == "false":
            e = z3.BoolVal(False)
        elif op == "add":
            e = a[0] + a[1]
        elif op == "sub":
            e = a[0] - a[1]
        elif op == "mul":
            e = a[0] * a[1]
        elif op == "div":
            e = a[0] / a[1]
        elif op == "neg":
            e = -a[0]
        elif op == "ite":
            e = z3.If(a[0], a[1], a[2])
        elif op == "lt":
            e = a[0] < a[1]
        elif op == "le":
            e = a[0] <= a[1]
        elif op == "eq":
            e = a[0] == a[1]
        elif op == "not":
            e = z3.Not(a[0])
        elif op == "and":
            e = z3.And(a[0], a[1])
        elif op == "or":
            e = z3.Or(a[0], a[1])
        elif op == "iff":
            e = a[0] == a[1]
        elif op == "uf" and n.args[0] == "floor" and len(a) == 1:
            e = z3.ToReal(z3.ToInt(a[0]))                  # interpreted: floor of a real
        elif op == "uf":
            name = n.args[0]
            key = (name, len(a), n.sort)
            f = _ufdecl.get(key)
            if f is None:
                f = z3.Function(name, *([z3.RealSort()] * len(a) + [z3.RealSort() if n.sort == "R" else z3.BoolSort()]))
                _ufdecl[key] = f
            e = f(*a)
        else:
            raise ValueError(op)
        _cache[n.id] = e
    return _cache[t.id]


def _check(assertions, timeout_ms, want_model):
    z3 = _z3()
    s = z3.Solver()
    s.set("timeout", int(timeout_ms))
    for t in assertions:
        s.add(_tr(t))
    t0 = time.time()
    r = s.check()
    dt = time.time() - t0
    res = str(r)
    model = None
    if res == "sat" and want_model:
        m = s.model()
        model = {}
        for d in m.decls():
            if d.arity() == 0:
                val = m[d]
                try:
                    if z3.is_true(val) or z3.is_false(val):
                        model[d.name()] = z3.is_true(val)
                    elif z3.is_int_value(val):
                        model[d.name()] = Fraction(val.as_long())
                    elif z3.is_rational_value(val):
                        model[d.name()] = Fraction(val.numerator_as_long(), val.denominator_as_long())
                    elif z3.is_algebraic_value(val):
                        ap = val.approx(30)
                        model[d.name()] = Fraction(ap.numerator_as_long(), ap.denominator_as_long())
                except Exception:
                    pass
    return res, model, dt


def check(assertions, timeout_s=30.0, want_model=True, kind="query"):
    """returns ('sat', model) / ('unsat', None) / ('unknown', None)"""
    assertions = [a for a in assertions if a is not T.TRUE]
    if any(a is T.FALSE for a in assertions):
        return "unsat", None
    res, model, dt = zrun(_check, assertions, timeout_s * 1000, want_model)
    if kind == "feas":
        STATS["feas_queries"] += 1
    else:
        STATS["queries"] += 1
        STATS[res if res in ("sat", "unsat") else "unknown"] += 1
    STATS["solver_s"] += dt
    return res, model


def _feasible(conds):
    conds = [c for c in conds if c is not T.TRUE]
    if any(c is T.FALSE for c in conds):
        return False
    if not conds:
        return True
    res, _ = check(conds, timeout_s=FEAS_TIMEOUT[0], want_model=False, kind="feas")
    if res == "sat":
        return True
    if res == "unsat":
        return False
    return None


S._feasible[0] = _feasible


# ---------------------------------------------------------------- SMT-LIB2 output

def to_smtlib(assertions, logic="ALL"):
    decls = {}
    ufs = {}
    defs = []
    names = {}

    def name_of(t):
        return names[t.id]

    order = []
    seen = set()
    stack = [(a, False) for a in assertions]
    while stack:
        n, done = stack.pop()
        if n.id in seen and not done:
            continue
        kids = n.args[1:] if n.op == "uf" else (() if n.op in ("const", "var", "true", "false") else n.args)
        if not done:
            if n.id in seen:
                continue
            seen.add(n.id)
            stack.append((n, True))
            for k in kids:
                if k.id not in seen:
                    stack.append((k, False))
        else:
            order.append(n)

    def q(v):
        if v.denominator == 1:
            s = "%d.0" % abs(v.numerator)
        else:
            s = "(/ %d.0 %d.0)" % (abs(v.numerator), v.denominator)
        return "(- %s)" % s if v < 0 else s

    for n in order:
        op = n.op
        kids = n.args[1:] if op == "uf" else (() if op in ("const", "var", "true", "false") else n.args)
        a = [names[k.id] for k in kids]
        if op == "const":
            names[n.id] = q(T.cval(n))
            continue
        if op == "var":
            nm = "|%s|" % n.args[0]
            if n.sort == "R" and n.args[0].startswith("int$"):
                decls[nm] = "Int"
                names[n.id] = "(to_real %s)" % nm
            else:
                decls[nm] = "Real" if n.sort == "R" else "Bool"
                names[n.id] = nm
            continue
        if op in ("true", "false"):
            names[n.id] = op
            continue
        m = {"add": "+", "sub": "-", "mul": "*", "div": "/", "neg": "-", "ite": "ite", "lt": "<", "le": "<=",
             "eq": "=", "not": "not", "and": "and", "or": "or", "iff": "="}
        if op == "uf" and n.args[0] == "floor" and len(a) == 1:
            body = "(to_real (to_int %s))" % a[0]
        elif op == "uf":
            fn = "|%s|" % n.args[0]
            ufs[fn] = (len(a), "Real" if n.sort == "R" else "Bool")
            body = "(%s %s)" % (fn, " ".join(a))
        else:
            body = "(%s %s)" % (m[op], " ".join(a))
        nm = "t%d" % n.id
        defs.append("(define-fun %s () %s %s)" % (nm, "Real" if n.sort == "R" else "Bool", body))
        names[n.id] = nm
    out = ["(set-logic %s)" % logic]
    for nm, so in sorted(decls.items()):
        out.append("(declare-fun %s () %s)" % (nm, so))
    for fn, (ar, so) in sorted(ufs.items()):
        out.append("(declare-fun %s (%s) %s)" % (fn, " ".join(["Real"] * ar), so))
    out.extend(defs)
    for a in assertions:
        out.append("(assert %s)" % names[a.id])
    out.append("(check-sat)")
    return "\n".join(out) + "\n"


def run_external(smt, solver="cvc5", timeout_s=60, extra=()):
    """returns 'sat' / 'unsat' / 'unknown' / 'error'"""
    d = tempfile.mkdtemp(prefix="vsym-smt-")
    try:
        p = os.path.join(d, "q.smt2")
        with open(p, "w") as f:
            f.write(smt)
        if solver == "cvc5":
            cmd = ["cvc5", "--tlimit=%d" % int(timeout_s * 1000)] + list(extra) + [p]
        elif solver == "z3":
            cmd = ["z3-new", "-T:%d" % int(timeout_s)] + list(extra) + [p]
        else:
            cmd = [solver] + list(extra) + [p]
        t0 = time.time()
        try:
            r = subprocess.run(cmd, capture_output=True, text=True, timeout=timeout_s + 10)
            out = r.stdout + r.stderr
        except subprocess.TimeoutExpired:
            out = "timeout"
        STATS["solver_s"] += time.time() - t0
        if "(error" in out:
            return "error"
        first = out.strip().splitlines()[0].strip() if out.strip() else ""
        if first in ("sat", "unsat"):
            return first
        return "unknown"
    finally:
        shutil.rmtree(d, ignore_errors=True)


def cross_check(assertions, expected, timeout_s=30):
    """run the same query through cvc5; disagreement is a harness error"""
    smt = to_smtlib(assertions)
    if len(STATS["smt_samples"]) < 2:
        STATS["smt_samples"].append(smt[:1500])
    r = run_external(smt, "cvc5", timeout_s, extra=["--nl-cov"] if False else [])
    STATS["cross_checked"] += 1
    if r in ("sat", "unsat") and r != expected:
        STATS["cross_disagree"] += 1
        return False
    return True


# ---------------------------------------------------------------- equality obligations

class Verdict(object):
    __slots__ = ("status", "model", "detail")

    def __init__(self, status, model=None, detail=""):
        self.status, self.model, self.detail = status, model, detail   # holds / violated / unknown


def prove_equal(impl, ref, pc=(), timeout_s=30.0, bound=100, eps=Fraction(1, 1000), extra_den=()):
    """Is  pc /\\ (all denominators != 0)  ==>  impl == ref  valid?

    Order of queries: (1) structural identity (fast path); (2) a *robust* counterexample
    inside |x| <= bound with |impl-ref| > eps, cheap to find and replayable in floats;
    (3) the exact disequality without domain bound.  'holds' only if (3) is unsat."""
    if impl is ref:
        STATS["fastpath"] += 1
        return Verdict("holds")
    side = [T.cmp("ne", d, T.ZERO) for d in T.denominators(impl, ref, *pc) if not T.is_const(d)]
    side += list(extra_den)
    base = list(pc) + side
    d = T.sub(impl, ref)
    fv = T.free_vars(impl, ref, *base)
    dom = []
    for name, sort in fv.items():
        if sort == "R":
            x = T.var(name)
            dom.append(T.cmp("le", x, T.const(bound)))
            dom.append(T.cmp("ge", x, T.const(-bound)))
    robust = T.or_(T.cmp("gt", d, T.const(eps)), T.cmp("lt", d, T.const(-eps)))
    r, m = check(base + dom + [robust], timeout_s)
    if r == "sat":
        return Verdict("violated", m, "robust")
    r2, m2 = check(base + [T.cmp("ne", impl, ref)], timeout_s)
    if r2 in ("sat", "unsat") and CROSS["limit"] > STATS["cross_checked"]:
        # second solver on the same query (thorough tier): disagreement is a harness error, never a verdict
        if not cross_check(base + [T.cmp("ne", impl, ref)], r2, timeout_s=20):
            return Verdict("unknown", None, "solver disagreement: z3 %s, cvc5 the opposite" % r2)
    if r2 == "unsat":
        return Verdict("holds")
    if r2 == "sat":
        return Verdict("violated", m2, "exact")
    return Verdict("unknown", None, "z3 %s/%s" % (r, r2))


def prove(formula, pc=(), timeout_s=30.0, bound=100):
    """Is  pc /\\ (denominators != 0)  ==>  formula  valid?  (formula: bool term)"""
    if formula is T.TRUE:
        STATS["fastpath"] += 1
        return Verdict("holds")
    side = [T.cmp("ne", d, T.ZERO) for d in T.denominators(formula, *pc) if not T.is_const(d)]
    base = list(pc) + side
    neg = T.not_(formula)
    dom = []
    for name, sort in T.free_vars(formula, *base).items():
        if sort == "R":
            x = T.var(name)
            dom.append(T.cmp("le", x, T.const(bound)))
            dom.append(T.cmp("ge", x, T.const(-bound)))
    r, m = check(base + dom + [neg], timeout_s)
    if r == "sat":
        return Verdict("violated", m, "bounded-domain")
    r2, m2 = check(base + [neg], timeout_s)
    if r2 == "unsat":
        return Verdict("holds")
    if r2 == "sat":
        return Verdict("violated", m2, "exact")
    return Verdict("unknown", None, "z3 %s/%s" % (r, r2))


def complete_model(model, *terms, default=Fraction(1)):
    """assign every free variable (solver models may omit don't-cares)"""
    env = dict(model or {})
    for name, sort in T.free_vars(*terms).items():
        if name not in env:
            env[name] = default if sort == "R" else False
    return env
