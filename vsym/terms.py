"""Hash-consed term DAG in pure Python (no z3 objects: the code under test evaluates
equations from worker threads and z3's Python API is not thread safe).

Sorts: 'R' (real), 'B' (bool).  Nodes are immutable; equal structure <=> same object.
Only *local, sound* rewrites are applied on construction (constant folding, neutral
elements, double negation); everything else is left to the solver.
"""
from fractions import Fraction
import threading

_lock = threading.RLock()
_table = {}
_counter = [0]


class T(object):
    __slots__ = ("op", "args", "sort", "id")

    def __repr__(self):
        return show(self)

    def __deepcopy__(self, memo):
        return self

    def __copy__(self):
        return self


def _mk(op, args, sort):
    key = (op, args, sort)
    with _lock:
        t = _table.get(key)
        if t is None:
            t = T()
            t.op = op
            t.args = args
            t.sort = sort
            _counter[0] += 1
            t.id = _counter[0]
            _table[key] = t
        return t


def reset():
    with _lock:
        _table.clear()


# ---------------------------------------------------------------- constructors

def const(v):
    if isinstance(v, bool):
        return TRUE if v else FALSE
    if isinstance(v, float):
        if v != v or v in (float("inf"), float("-inf")):
            raise NonFinite(v)
        f = Fraction(v).limit_denominator(10 ** 7)
        # Real mode: a double stands for the short rational it was written as or rounds to
        # (0.1 -> 1/10, 0.3-0.1 = 0.19999999999999998 -> 1/5): value-level rounding of binary64
        # is outside every Real-mode claim.  Doubles further than 1e-12 (relative) from any short
        # rational keep their exact binary value.
        v = f if abs(float(f) - v) <= 1e-12 * max(1.0, abs(v)) else Fraction(v)
    elif not isinstance(v, Fraction):
        v = Fraction(v)
    return _mk("const", (v,), "R")


class NonFinite(ArithmeticError):
    pass


def var(name, sort="R"):
    return _mk("var", (name,), sort)


TRUE = _mk("true", (), "B")
FALSE = _mk("false", (), "B")
ZERO = const(0)
ONE = const(1)


def is_const(t):
    return t.op == "const"


def cval(t):
    return t.args[0]


def add(a, b):
    if is_const(a) and is_const(b):
        return const(cval(a) + cval(b))
    if a is ZERO:
        return b
    if b is ZERO:
        return a
    return _mk("add", (a, b), "R")


def sub(a, b):
    if is_const(a) and is_const(b):
        return const(cval(a) - cval(b))
    if b is ZERO:
        return a
    if a is b:
        return ZERO
    return _mk("sub", (a, b), "R")


def mul(a, b):
    if is_const(a) and is_const(b):
        return const(cval(a) * cval(b))
    if a is ONE:
        return b
    if b is ONE:
        return a
    if a is ZERO or b is ZERO:
        return ZERO
    return _mk("mul", (a, b), "R")


def div(a, b):
    if is_const(b) and cval(b) != 0:
        if is_const(a):
            return const(cval(a) / cval(b))
        if b is ONE:
            return a
    if is_const(b) and cval(b) == 0:
        raise ZeroDivisionError("division by constant zero")
    return _mk("div", (a, b), "R")


def neg(a):
    if is_const(a):
        return const(-cval(a))
    if a.op == "neg":
        return a.args[0]
    return _mk("neg", (a,), "R")


def ite(c, a, b):
    if c is TRUE:
        return a
    if c is FALSE:
        return b
    if a is b:
        return a
    return _mk("ite", (c, a, b), a.sort)


def cmp(op, a, b):
    """op in lt le gt ge eq ne (reals)"""
    if is_const(a) and is_const(b):
        x, y = cval(a), cval(b)
        r = {"lt": x < y, "le": x <= y, "gt": x > y, "ge": x >= y, "eq": x == y, "ne": x != y}[op]
        return TRUE if r else FALSE
    if a is b:
        return TRUE if op in ("le", "ge", "eq") else FALSE
    if op == "gt":
        return _mk("lt", (b, a), "B")
    if op == "ge":
        return _mk("le", (b, a), "B")
    if op == "ne":
        return not_(_mk("eq", (a, b), "B"))
    return _mk(op, (a, b), "B")


def not_(a):
    if a is TRUE:
        return FALSE
    if a is FALSE:
        return TRUE
    if a.op == "not":
        return a.args[0]
    return _mk("not", (a,), "B")


def and_(a, b):
    if a is FALSE or b is FALSE:
        return FALSE
    if a is TRUE:
        return b
    if b is TRUE:
        return a
    if a is b:
        return a
    return _mk("and", (a, b), "B")


def or_(a, b):
    if a is TRUE or b is TRUE:
        return TRUE
    if a is FALSE:
        return b
    if b is FALSE:
        return a
    if a is b:
        return a
    return _mk("or", (a, b), "B")


def beq(a, b):
    """boolean equivalence"""
    if a is b:
        return TRUE
    return _mk("iff", (a, b), "B")


def uf(name, args, sort="R"):
    return _mk("uf", (name,) + tuple(args), sort)


def b2r(b):
    return ite(b, ONE, ZERO)


def powi(a, n):
    """a ** n for a concrete int n >= 0 expanded to a product"""
    r = ONE
    for _ in range(n):
        r = mul(r, a)
    return r


# ---------------------------------------------------------------- utilities

def show(t, depth=0):
    if t.op == "const":
        v = cval(t)
        return str(v.numerator) if v.denominator == 1 else "%s/%s" % (v.numerator, v.denominator)
    if t.op == "var":
        return t.args[0]
    if t.op in ("true", "false"):
        return t.op
    if depth > 12:
        return "..."
    sym = {"add": "+", "sub": "-", "mul": "*", "div": "/", "lt": "<", "le": "<=", "eq": "==",
           "and": "&", "or": "|", "iff": "<=>"}
    if t.op in sym:
        return "(%s %s %s)" % (show(t.args[0], depth + 1), sym[t.op], show(t.args[1], depth + 1))
    if t.op == "neg":
        return "-%s" % show(t.args[0], depth + 1)
    if t.op == "not":
        return "!%s" % show(t.args[0], depth + 1)
    if t.op == "ite":
        return "ite(%s, %s, %s)" % tuple(show(x, depth + 1) for x in t.args)
    if t.op == "uf":
        return "%s(%s)" % (t.args[0], ", ".join(show(x, depth + 1) for x in t.args[1:]))
    return "%s%r" % (t.op, t.args)


def free_vars(*ts):
    seen = set()
    out = {}
    stack = list(ts)
    while stack:
        t = stack.pop()
        if t.id in seen:
            continue
        seen.add(t.id)
        if t.op == "var":
            out[t.args[0]] = t.sort
        elif t.op == "uf":
            stack.extend(t.args[1:])
        elif t.op != "const":
            stack.extend(t.args)
    return out


def denominators(*ts):
    """every term that occurs as a divisor"""
    seen = set()
    out = []
    stack = list(ts)
    while stack:
        t = stack.pop()
        if t.id in seen:
            continue
        seen.add(t.id)
        if t.op == "div":
            out.append(t.args[1])
        if t.op == "uf":
            stack.extend(t.args[1:])
        elif t.op not in ("const", "var"):
            stack.extend(t.args)
    return out


def size(*ts):
    seen = set()
    stack = list(ts)
    while stack:
        t = stack.pop()
        if t.id in seen:
            continue
        seen.add(t.id)
        if t.op == "uf":
            stack.extend(t.args[1:])
        elif t.op not in ("const", "var"):
            stack.extend(t.args)
    return len(seen)


def evaluate(t, env, ufs=None, cache=None):
    """exact evaluation with Fractions (floats for UFs); env: name -> number/bool"""
    if cache is None:
        cache = {}
    r = cache.get(t.id)
    if r is not None:
        return r
    op = t.op
    if op == "const":
        r = cval(t)
    elif op == "var":
        r = env[t.args[0]]
        if t.sort == "R" and not isinstance(r, Fraction):
            r = Fraction(r)
    elif op == "true":
        r = True
    elif op == "false":
        r = False
    elif op == "ite":
        r = evaluate(t.args[1], env, ufs, cache) if evaluate(t.args[0], env, ufs, cache) else evaluate(t.args[2], env, ufs, cache)
    elif op == "uf":
        a = [evaluate(x, env, ufs, cache) for x in t.args[1:]]
        r = ufs[t.args[0]](*a)
        if t.sort == "R" and not isinstance(r, Fraction):
            r = Fraction(r)
    else:
        a = [evaluate(x, env, ufs, cache) for x in t.args]
        if op == "add":
            r = a[0] + a[1]
        elif op == "sub":
            r = a[0] - a[1]
        elif op == "mul":
            r = a[0] * a[1]
        elif op == "div":
            r = a[0] / a[1]
        elif op == "neg":
            r = -a[0]
        elif op == "lt":
            r = a[0] < a[1]
        elif op == "le":
            r = a[0] <= a[1]
        elif op == "eq":
            r = a[0] == a[1]
        elif op == "not":
            r = not a[0]
        elif op == "and":
            r = a[0] and a[1]
        elif op == "or":
            r = a[0] or a[1]
        elif op == "iff":
            r = bool(a[0]) == bool(a[1])
        else:
            raise ValueError(op)
    cache[t.id] = r
    return r
