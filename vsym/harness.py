"""Shared plumbing of all checks: report object (violations -> replay -> known findings ->
exit code), evidence writer, source hashing, stub installation."""
import hashlib
import importlib
import inspect
import json
import os
import subprocess
import sys
import time

VERIF = os.path.dirname(os.path.dirname(os.path.abspath(__file__)))
REPO = os.environ.get("VERIF_REPO", "/repo")
EVID = os.path.join(VERIF, "evidence")
REPLAYS = os.path.join(VERIF, "replays")
KNOWN = os.path.join(VERIF, "known_findings.json")


def seed():
    try:
        return int(os.environ.get("VERIF_SEED", "0"))
    except ValueError:
        return 0


def load_known(pid):
    try:
        with open(KNOWN) as f:
            data = json.load(f)
    except FileNotFoundError:
        return {}
    out = {}
    for e in data.get("findings", []):
        if e.get("property") == pid and e.get("status", "open") == "open":
            out[e["signature"]] = e
    return out


def src_hash(obj):
    try:
        src = inspect.getsource(obj)
    except Exception:
        return "unavailable"
    return hashlib.sha256(src.encode()).hexdigest()[:12]


def qualname(obj):
    return "%s.%s" % (getattr(obj, "__module__", "?"), getattr(obj, "__qualname__", getattr(obj, "__name__", "?")))


class Report(object):
    def __init__(self, pid, tier, level, module):
        self.pid, self.tier, self.level, self.module = pid, tier, level, module
        self.t0 = time.time()
        self.known = load_known(pid)
        self.cands = {}          # signature -> (case, description)
        self.confirmed = []      # (signature, path, description)
        self.known_hit = []
        self.inconclusive = []
        self.not_explored = []   # strings
        self.coverage = {}
        self.assumptions = []
        self.functions = []
        self.canaries = {}
        self.notes = []

    # -- bookkeeping
    def encoded(self, *objs):
        for o in objs:
            self.functions.append({"name": qualname(o), "sha": src_hash(o)})

    def assume(self, *texts):
        for t in texts:
            if t not in self.assumptions:
                self.assumptions.append(t)

    def candidate(self, signature, case, description):
        """a solver counterexample; kept once per signature"""
        if signature not in self.cands:
            self.cands[signature] = (case, description)

    def inconcl(self, text):
        if SKIP_MARK in str(text):
            # a task the thorough tier's time budget did not reach (or that ran past its per-task limit):
            # not explored - counted and listed in the evidence, never reported as held
            self.not_explored.append(str(text)[:300])
            return
        self.inconclusive.append(text)

    def canary(self, name, detected):
        self.canaries[name] = bool(detected)
        if not detected:
            self.inconcl("canary %s was NOT detected" % name)

    # -- replay
    def _write_case(self, signature, case):
        os.makedirs(REPLAYS, exist_ok=True)
        h = hashlib.sha256(json.dumps(case, sort_keys=True, default=str).encode()).hexdigest()[:10]
        path = os.path.join(REPLAYS, "%s-%s.json" % (self.pid, h))
        with open(path, "w") as f:
            json.dump({"property": self.pid, "module": self.module, "signature": signature, "case": case},
                      f, indent=1, default=str)
        return path

    def finish(self):
        """replays candidates, prints lines, writes evidence, returns exit code"""
        violations = 0
        items = []
        for sig, (case, desc) in sorted(self.cands.items()):
            items.append((sig, desc, self._write_case(sig, case)))
        results = run_replays([p for (_, _, p) in items]) if items else {}
        self.replayed = len(items)
        for sig, desc, path in items:
            r = results.get(path)
            if r == 1:
                if sig in self.known:
                    self.known_hit.append(sig)
                    print("KNOWN-FINDING: property=%s %s [%s]" % (self.pid, self.known[sig].get("what", desc), sig))
                    try:
                        os.remove(path)
                    except OSError:
                        pass
                else:
                    violations += 1
                    self.confirmed.append((sig, path, desc))
                    print("VIOLATION property=%s replay=%s" % (self.pid, path))
                    print("  signature=%s  %s" % (sig, desc))
            else:
                self.inconcl("counterexample %s did not reproduce on the real code (replay result %s): %s" % (sig, r, desc))
                try:
                    os.remove(path)
                except OSError:
                    pass
        code = 1 if violations else (2 if self.inconclusive else 0)
        self.write_evidence(violations)
        for t in self.inconclusive:
            print("INCONCLUSIVE: %s" % t)
        if self.not_explored:
            print("NOT-EXPLORED: %d tasks were not reached within the time budget (listed in the evidence)" % len(self.not_explored))
        print("%s %s: %s  (%.1fs)" % (self.pid, self.tier,
                                      {0: "held on everything explored", 1: "VIOLATED", 2: "inconclusive / harness error"}[code],
                                      time.time() - self.t0))
        return code

    def write_evidence(self, violations):
        from . import solve
        os.makedirs(EVID, exist_ok=True)
        cov = dict(self.coverage)
        cov.setdefault("functions_encoded", self.functions)
        cov["solver"] = {k: (round(v, 3) if isinstance(v, float) else v) for k, v in solve.STATS.items() if k != "smt_samples"}
        if solve.STATS["smt_samples"]:
            cov["smt_query_samples"] = solve.STATS["smt_samples"]
        cov["canaries_detected"] = self.canaries
        cov["known_findings_reproduced"] = sorted(self.known_hit)
        cov["known_findings_not_reproduced"] = sorted(set(self.known) - set(self.known_hit))
        cov["counterexamples_replayed_on_real_code"] = getattr(self, "replayed", 0)
        cov["violations_new"] = [{"signature": s, "replay": p, "what": d} for (s, p, d) in self.confirmed]
        cov["inconclusive"] = self.inconclusive
        if self.not_explored:
            cov["not_explored"] = {"count": len(self.not_explored), "reason": "time budget of the tier (tasks are taken in a seeded random order; %s s per parallel map, %s s per task)" % (
                os.environ.get("VERIF_BUDGET_S", "-"), os.environ.get("VERIF_TASK_TIMEOUT_S", "-")), "examples": self.not_explored[:12]}
        if self.notes:
            cov["notes"] = self.notes
        ev = {"property_id": self.pid, "tier": self.tier, "seed": seed(), "level": self.level,
              "coverage": cov, "assumptions": self.assumptions, "wall_s": round(time.time() - self.t0, 2),
              "violations": violations}
        with open(os.path.join(EVID, "%s.json" % self.pid), "w") as f:
            json.dump(ev, f, indent=1, default=str)


def run_replays(paths):
    """fresh interpreter, no stubs; returns {path: 1 reproduced | 0 not reproduced | -1 error}"""
    env = dict(os.environ)
    env["PYTHONPATH"] = REPO + os.pathsep + VERIF
    out = {}
    for i in range(0, len(paths), 200):
        chunk = paths[i:i + 200]
        try:
            r = subprocess.run([sys.executable, "-m", "vsym.replay", "--batch"] + chunk, env=env, capture_output=True,
                               text=True, timeout=1800)
        except subprocess.TimeoutExpired:
            continue
        for line in r.stdout.splitlines():
            if line.startswith("RESULT "):
                _, p, code = line.split(" ")
                out[p] = int(code)
        if r.returncode != 0:
            sys.stderr.write(r.stderr[-3000:])
    return out


# ------------------------------------------------------------------ stub installation

class Stubs(object):
    """rebinds names in module namespaces; restores on exit; keeps a list for evidence"""

    def __init__(self):
        self.saved = []
        self.listed = []

    def set(self, module, name, value):
        mod = importlib.import_module(module) if isinstance(module, str) else module
        missing = object()
        old = mod.__dict__.get(name, missing)
        self.saved.append((mod, name, old, missing))
        mod.__dict__[name] = value
        self.listed.append("%s.%s" % (mod.__name__, name))

    def restore(self):
        for mod, name, old, missing in reversed(self.saved):
            if isinstance(mod, type):
                setattr(mod, name, old)
            elif old is missing:
                mod.__dict__.pop(name, None)
            else:
                mod.__dict__[name] = old
        self.saved = []

    def __enter__(self):
        return self

    def __exit__(self, *a):
        self.restore()


def install_sd_stubs(stubs, sync_threads=True):
    """names resolved by generated SD-DSL lambdas (evaluated in BPTK_Py.sddsl.element) and by
    Model._lookup"""
    from . import sym as S
    npx = S.NpProxy()
    m = "BPTK_Py.sddsl.element"
    stubs.set(m, "max", S.sym_max)
    stubs.set(m, "min", S.sym_min)
    stubs.set(m, "sorted", S.sym_sorted)
    stubs.set(m, "np", npx)
    stubs.set(m, "random", S.RandomStub("random"))
    mm = "BPTK_Py.modeling.model"
    stubs.set(mm, "interp1d", S._Interp1d)
    stubs.set(mm, "float", S.sym_float)
    if sync_threads:
        stubs.set("BPTK_Py.sdsimulation.sd_simulation", "Thread", SyncThread)
    return npx


class SyncThread(object):
    """deterministic stand-in for threading.Thread: the target runs at start()"""

    def __init__(self, target=None, args=(), kwargs=None, **_):
        self._t, self._a, self._k = target, args, kwargs or {}

    def start(self):
        self._t(*self._a, **self._k)

    def join(self, timeout=None):
        return None

    def is_alive(self):
        return False


def quiet_logging():
    import logging
    logging.disable(logging.CRITICAL)
    try:
        import BPTK_Py.logger.logger as lg
        lg.loglevel = "ERROR"
        lg.logmodes = []
        lg.logfile = os.devnull
    except Exception:
        pass


# ------------------------------------------------------------------ process pool

def nprocs():
    try:
        return max(1, min(int(os.environ.get("VERIF_PROCS", "14")), (os.cpu_count() or 2)))
    except ValueError:
        return 8


SKIP_MARK = "SKIPPED-BY-BUDGET"


class TaskTimeout(BaseException):
    pass


def _alarm(signum, frame):
    raise TaskTimeout()


def _pmap_call(args):
    func, item = args[0], args[1]
    deadline, limit = (args[2], args[3]) if len(args) > 2 else (None, None)
    from . import solve
    if deadline is not None and time.time() > deadline:
        return None, SKIP_MARK + ": not started", {}
    if limit:
        import signal
        signal.signal(signal.SIGALRM, _alarm)
        signal.setitimer(signal.ITIMER_REAL, float(limit))
    before = dict((k, v) for k, v in solve.STATS.items() if isinstance(v, (int, float)))
    tl = os.environ.get("VERIF_TASKLOG")
    t0 = time.time()
    if tl:
        with open(tl, "a") as f:
            f.write("START %d %s\n" % (os.getpid(), repr(item)[:300]))
    try:
        r = func(item)
        err = None
        if tl:
            with open(tl, "a") as f:
                f.write("DONE %d %.1fs %s\n" % (os.getpid(), time.time() - t0, repr(item)[:120]))
    except TaskTimeout:
        r, err = None, SKIP_MARK + ": stopped after %s s" % limit
    except BaseException as e:  # noqa
        import traceback
        r, err = None, "%r\n%s" % (e, traceback.format_exc()[-1500:])
    finally:
        if limit:
            import signal
            signal.setitimer(signal.ITIMER_REAL, 0)
    delta = {k: solve.STATS[k] - before[k] for k in before}
    return r, err, delta


def pmap(func, items, procs=None, chunksize=1, fresh_process=False):
    """fork-based parallel map; merges solver statistics of the workers into this process.
    Must be called before this process has used z3 (the solver thread is created lazily)."""
    import multiprocessing as mp
    from . import solve
    procs = procs or nprocs()
    items = list(items)
    # time budget (set by the thorough tier): tasks are taken in a seeded random order, so that what is reached
    # is a spread sample of the task list; tasks not reached are reported as not explored
    budget = float(os.environ.get("VERIF_BUDGET_S", "0") or 0)
    limit = float(os.environ.get("VERIF_TASK_TIMEOUT_S", "0") or 0)
    order = list(range(len(items)))
    extra = ()
    if budget > 0:
        import random as _r
        _r.Random(seed()).shuffle(order)
        extra = (time.time() + budget, limit)
        chunksize = 1
    elif limit > 0:
        extra = (None, limit)
    work = [(func, items[i]) + extra for i in order]
    if procs <= 1 or len(items) <= 1:
        res_p = [_pmap_call(w) for w in work]
    else:
        ctx = mp.get_context("fork")
        # fresh_process: every task runs in a process forked from this (pristine) one, so that process-wide state a
        # task leaves behind (class attributes, module caches) cannot reach the next task
        with (ctx.Pool(procs, maxtasksperchild=1) if fresh_process else ctx.Pool(procs)) as pool:
            res_p = pool.map(_pmap_call, work, chunksize=1 if fresh_process else chunksize)
    res = [None] * len(items)
    for i, r in zip(order, res_p):
        res[i] = r
    out = []
    for r, err, delta in res:
        if procs > 1 and len(items) > 1:
            for k, v in delta.items():
                solve.STATS[k] += v
        out.append((r, err))
    return out
