"""FP mode: bit-precise (binary64, RNE) symbolic evaluation of straight-line Python float code
taken from the AST of the real functions, printed as SMT-LIB2 (QF_FP) for cvc5 / z3.

Values are either concrete Python numbers (folded with the real functions) or `Sx` objects
holding an SMT-LIB term of sort Float64 / Bool.  `round(y, p)` (correctly rounded decimal
rounding, half-even on the exact binary value) is encoded exactly with directed-rounding
divisions and an auxiliary integral variable; one-argument round is roundToIntegral RNE.
"""
import ast
import inspect
import os
import re
import shutil
import struct
import subprocess
import tempfile
import textwrap
import time
from fractions import Fraction

F64 = "(_ FloatingPoint 11 53)"


class Unsupported(Exception):
    pass


class Sx(object):
    __slots__ = ("s", "sort", "num")

    def __init__(self, s, sort="F"):
        self.s, self.sort, self.num = s, sort, None

    def __repr__(self):
        return "Sx(%s)" % self.s[:80]


def fpconst(x):
    x = float(x)
    if x != x or x in (float("inf"), float("-inf")):
        raise Unsupported("non-finite constant")
    b = struct.unpack(">Q", struct.pack(">d", x))[0]
    bits = format(b, "064b")
    return "(fp #b%s #b%s #b%s)" % (bits[0], bits[1:12], bits[12:])


def parse_fp(text):
    """'(fp #b0 #b... #b...)' -> float"""
    m = re.search(r"\(fp\s+#b([01])\s+#b([01]{11})\s+#b([01]{52})\)", text)
    if not m:
        m2 = re.search(r"\(fp\s+#x([0-9a-f]+)\s+#x([0-9a-f]+)\s+#x([0-9a-f]+)\)", text)
        raise ValueError("cannot parse fp value: %s" % text[:120])
    bits = m.group(1) + m.group(2) + m.group(3)
    return struct.unpack(">d", struct.pack(">Q", int(bits, 2)))[0]


class Ctx(object):
    """collects declarations, definitions and side constraints of one query"""

    def __init__(self, namespaces):
        self.ns = namespaces          # list of dicts to resolve function names (module globals first)
        self.decls = []
        self.asserts = []
        self.n = 0
        self.inlined = set()

    def fresh(self, prefix, sort=F64):
        self.n += 1
        nm = "%s_%d" % (prefix, self.n)
        self.decls.append("(declare-const %s %s)" % (nm, sort))
        return nm

    def var(self, name, sort=F64):
        self.decls.append("(declare-const %s %s)" % (name, sort))
        return Sx(name, "F" if sort == F64 else "B")

    def define(self, sx, prefix="t"):
        """name a sub-term (keeps the query a DAG)"""
        self.n += 1
        nm = "%s_%d" % (prefix, self.n)
        self.decls.append("(define-fun %s () %s %s)" % (nm, F64 if sx.sort == "F" else "Bool", sx.s))
        r = Sx(nm, sx.sort)
        r.num = sx.num
        return r

    def resolve(self, name):
        for d in self.ns:
            if name in d:
                return d[name]
        import builtins
        if hasattr(builtins, name):
            return getattr(builtins, name)
        raise Unsupported("unknown name %s" % name)


def is_conc(v):
    return not isinstance(v, Sx)


def lift(v):
    if isinstance(v, Sx):
        return v
    if isinstance(v, bool):
        return Sx("true" if v else "false", "B")
    if isinstance(v, (int, float)):
        if isinstance(v, int) and abs(v) >= 2 ** 53:
            raise Unsupported("integer beyond 2^53")
        return Sx(fpconst(v))
    raise Unsupported("cannot lift %r" % (v,))


def fp_bin(op, a, b):
    m = {"add": "fp.add RNE", "sub": "fp.sub RNE", "mul": "fp.mul RNE", "div": "fp.div RNE"}[op]
    return Sx("(%s %s %s)" % (m, lift(a).s, lift(b).s))


def fp_cmp(op, a, b):
    m = {"lt": "fp.lt", "le": "fp.leq", "gt": "fp.gt", "ge": "fp.geq", "eq": "fp.eq"}
    if op == "ne":
        return Sx("(not (fp.eq %s %s))" % (lift(a).s, lift(b).s), "B")
    return Sx("(%s %s %s)" % (m[op], lift(a).s, lift(b).s), "B")


def b_and(*xs):
    xs = [lift(x).s for x in xs]
    return Sx("(and %s)" % " ".join(xs) if len(xs) > 1 else xs[0], "B")


def b_or(*xs):
    xs = [lift(x).s for x in xs]
    return Sx("(or %s)" % " ".join(xs) if len(xs) > 1 else xs[0], "B")


def b_not(x):
    return Sx("(not %s)" % lift(x).s, "B")


def ite(c, a, b):
    a, b = lift(a), lift(b)
    return Sx("(ite %s %s %s)" % (lift(c).s, a.s, b.s), a.sort)


def round0(ctx, y):
    """Python round(y) for a float: nearest integer, ties to even"""
    return Sx("(fp.roundToIntegral RNE %s)" % lift(y).s)


def round_p(ctx, y, p):
    """Python round(y, p), p concrete int >= 0, exact.  Adds the defining constraints of the
    auxiliary integer n (an integral Float64, |n| < 2^50) to ctx.asserts:
        n is the integer nearest to y*10^p (exact real product), ties to even; result = RN(n / 10^p).
    The real comparisons (2n-1) <= 2*10^p*y <= (2n+1) are decided exactly with one fused multiply-add
    each: fma(y, 2*10^p, -(2n+-1)) rounds the exact residual once, which preserves its sign and
    its being zero."""
    if p == 0:
        return round0(ctx, y)      # float.__round__(0) returns a float rounded half-even as well
    if not isinstance(p, int) or p < 0 or p > 15:
        raise Unsupported("round with ndigits=%r" % (p,))
    y = ctx.define(lift(y), "y")
    n = ctx.fresh("n")
    ten = fpconst(float(10 ** p))
    two_ten = fpconst(float(2 * 10 ** p))
    one, two, half_c, zero = fpconst(1.0), fpconst(2.0), fpconst(0.5), fpconst(0.0)
    lim = fpconst(float(2 ** 50))
    A = ctx.asserts
    A.append("(= %s (fp.roundToIntegral RNE %s))" % (n, n))
    A.append("(fp.lt (fp.abs %s) %s)" % (n, lim))
    lo_num = "(fp.sub RNE (fp.mul RNE %s %s) %s)" % (two, n, one)     # 2n-1 exact
    hi_num = "(fp.add RNE (fp.mul RNE %s %s) %s)" % (two, n, one)     # 2n+1 exact
    ctx.n += 1
    rlo, rhi = "rlo_%d" % ctx.n, "rhi_%d" % ctx.n
    ctx.decls.append("(define-fun %s () %s (fp.fma RNE %s %s (fp.neg %s)))" % (rlo, F64, y.s, two_ten, lo_num))
    ctx.decls.append("(define-fun %s () %s (fp.fma RNE %s %s (fp.neg %s)))" % (rhi, F64, y.s, two_ten, hi_num))
    A.append("(fp.geq %s %s)" % (rlo, zero))
    A.append("(fp.leq %s %s)" % (rhi, zero))
    halfn = "(fp.mul RNE %s %s)" % (n, half_c)
    even = "(= %s (fp.roundToIntegral RNE %s))" % (halfn, halfn)
    A.append("(=> (or (fp.isZero %s) (fp.isZero %s)) %s)" % (rlo, rhi, even))
    r = Sx("(fp.div RNE %s %s)" % (n, ten))
    r.num = (n, p)
    return r


def same_decimal(a, b):
    """a == b for values that are RN(integer / 10^p): decided on the integers when both carry them"""
    na, nb = getattr(a, "num", None), getattr(b, "num", None)
    if na and nb and na[1] == nb[1]:
        return Sx("(fp.eq %s %s)" % (na[0], nb[0]), "B")
    return fp_cmp("eq", a, b)


# ------------------------------------------------------------------ AST evaluation

BINOPS = {ast.Add: "add", ast.Sub: "sub", ast.Mult: "mul", ast.Div: "div"}
CMPOPS = {ast.Lt: "lt", ast.LtE: "le", ast.Gt: "gt", ast.GtE: "ge", ast.Eq: "eq", ast.NotEq: "ne"}


def eval_expr(ctx, node, env):
    """env: name -> concrete value | Sx"""
    if isinstance(node, ast.Constant):
        return node.value
    if isinstance(node, ast.Name):
        if node.id in env:
            return env[node.id]
        return ctx.resolve(node.id)
    if isinstance(node, ast.Attribute):
        key = ast.unparse(node)
        if key in env:
            return env[key]
        base = eval_expr(ctx, node.value, env)
        if is_conc(base):
            return getattr(base, node.attr)
        raise Unsupported("attribute of symbolic value: %s" % key)
    if isinstance(node, ast.Subscript):
        key = ast.unparse(node)
        if key in env:
            return env[key]
        base = eval_expr(ctx, node.value, env)
        idx = eval_expr(ctx, node.slice, env)
        if is_conc(base) and is_conc(idx):
            return base[idx]
        raise Unsupported("subscript of symbolic value: %s" % key)
    if isinstance(node, ast.UnaryOp):
        v = eval_expr(ctx, node.operand, env)
        if isinstance(node.op, ast.USub):
            return -v if is_conc(v) else Sx("(fp.neg %s)" % v.s)
        if isinstance(node.op, ast.UAdd):
            return v
        if isinstance(node.op, ast.Not):
            return (not v) if is_conc(v) else b_not(v)
        raise Unsupported(ast.dump(node.op))
    if isinstance(node, ast.BinOp):
        a, b = eval_expr(ctx, node.left, env), eval_expr(ctx, node.right, env)
        op = BINOPS.get(type(node.op))
        if is_conc(a) and is_conc(b):
            import operator
            f = {ast.Add: operator.add, ast.Sub: operator.sub, ast.Mult: operator.mul, ast.Div: operator.truediv,
                 ast.Pow: operator.pow, ast.Mod: operator.mod, ast.FloorDiv: operator.floordiv}.get(type(node.op))
            if f is None:
                raise Unsupported(ast.dump(node.op))
            return f(a, b)
        if op is None:
            raise Unsupported("symbolic %s" % type(node.op).__name__)
        # 1.0*x and x*1.0 are exact identities in binary64
        if op == "mul" and is_conc(a) and a == 1:
            return b
        if op == "mul" and is_conc(b) and b == 1:
            return a
        return fp_bin(op, a, b)
    if isinstance(node, ast.Compare):
        left = eval_expr(ctx, node.left, env)
        parts = []
        for o, c in zip(node.ops, node.comparators):
            right = eval_expr(ctx, c, env)
            op = CMPOPS.get(type(o))
            if op is None:
                raise Unsupported(ast.dump(o))
            if is_conc(left) and is_conc(right):
                import operator
                r = getattr(operator, {"lt": "lt", "le": "le", "gt": "gt", "ge": "ge", "eq": "eq", "ne": "ne"}[op])(left, right)
            else:
                r = fp_cmp(op, left, right)
            parts.append(r)
            left = right
        if all(is_conc(p) for p in parts):
            return all(parts)
        return b_and(*parts) if len(parts) > 1 else parts[0]
    if isinstance(node, ast.BoolOp):
        vals = [eval_expr(ctx, v, env) for v in node.values]
        if all(is_conc(v) for v in vals):
            return all(vals) if isinstance(node.op, ast.And) else any(vals)
        return b_and(*vals) if isinstance(node.op, ast.And) else b_or(*vals)
    if isinstance(node, ast.IfExp):
        c = eval_expr(ctx, node.test, env)
        if is_conc(c):
            return eval_expr(ctx, node.body if c else node.orelse, env)
        return ite(c, eval_expr(ctx, node.body, env), eval_expr(ctx, node.orelse, env))
    if isinstance(node, ast.Call):
        return eval_call(ctx, node, env)
    raise Unsupported("expression %s" % type(node).__name__)


def eval_call(ctx, node, env):
    fn = eval_expr(ctx, node.func, env) if not isinstance(node.func, ast.Name) else (
        env[node.func.id] if node.func.id in env and callable(env[node.func.id]) else ctx.resolve(node.func.id))
    args = [eval_expr(ctx, a, env) for a in node.args]
    kwargs = {k.arg: eval_expr(ctx, k.value, env) for k in node.keywords}
    if all(is_conc(a) for a in args) and all(is_conc(v) for v in kwargs.values()):
        return fn(*args, **kwargs)
    import builtins
    if fn is builtins.round:
        if len(args) == 1 and not kwargs:
            return round0(ctx, args[0])
        p = args[1] if len(args) > 1 else kwargs.get("ndigits")
        if not is_conc(p):
            raise Unsupported("symbolic ndigits")
        if p is None:
            return round0(ctx, args[0])
        return round_p(ctx, args[0], int(p))
    if fn is builtins.abs:
        return Sx("(fp.abs %s)" % lift(args[0]).s)
    if fn is builtins.float:
        return args[0]
    if fn is builtins.max or fn is builtins.min:
        r = args[0]
        for b in args[1:]:
            c = fp_cmp("gt" if fn is builtins.max else "lt", b, r)
            r = ite(c, b, r)
        return r
    if inspect.isfunction(fn):
        return inline(ctx, fn, args, kwargs)
    raise Unsupported("call of %r with symbolic arguments" % (fn,))


def inline(ctx, fn, args, kwargs):
    """symbolically execute a pure python function consisting of simple assignments and a final return"""
    src = textwrap.dedent(inspect.getsource(fn))
    fdef = ast.parse(src).body[0]
    sig = inspect.signature(fn)
    ba = sig.bind(*args, **kwargs)
    ba.apply_defaults()
    env = dict(ba.arguments)
    ctx.inlined.add(fn.__module__ + "." + fn.__qualname__)
    sub = Ctx([fn.__globals__] + ctx.ns)
    sub.decls, sub.asserts, sub.inlined = ctx.decls, ctx.asserts, ctx.inlined
    sub.n = ctx.n
    try:
        for st in fdef.body:
            if isinstance(st, ast.Expr) and isinstance(st.value, ast.Constant):
                continue                                       # docstring
            if isinstance(st, ast.Assign) and len(st.targets) == 1 and isinstance(st.targets[0], ast.Name):
                env[st.targets[0].id] = eval_expr(sub, st.value, env)
            elif isinstance(st, ast.Return):
                return eval_expr(sub, st.value, env)
            else:
                raise Unsupported("statement %s in %s" % (type(st).__name__, fn.__name__))
    finally:
        ctx.n = sub.n
    raise Unsupported("no return in %s" % fn.__name__)


# ------------------------------------------------------------------ solving

STATS = {"queries": 0, "sat": 0, "unsat": 0, "unknown": 0, "solver_s": 0.0, "samples": []}


def script(ctx, goal_asserts, get_values=()):
    out = ["(set-logic QF_FP)", "(set-option :produce-models true)"]
    out += ctx.decls
    out += ["(assert %s)" % a for a in ctx.asserts]
    out += ["(assert %s)" % a for a in goal_asserts]
    out.append("(check-sat)")
    if get_values:
        out.append("(get-value (%s))" % " ".join(get_values))
    return "\n".join(out) + "\n"


def solve(smt, timeout_s=120, solver="cvc5"):
    """-> (result, raw output)"""
    d = tempfile.mkdtemp(prefix="vsym-fp-")
    try:
        p = os.path.join(d, "q.smt2")
        with open(p, "w") as f:
            f.write(smt)
        if solver == "cvc5":
            cmd = ["cvc5", "--fp-exp", "--tlimit=%d" % int(timeout_s * 1000), p]
        else:
            cmd = ["z3-new", "-T:%d" % int(timeout_s), p]
        t0 = time.time()
        try:
            r = subprocess.run(cmd, capture_output=True, text=True, timeout=timeout_s + 15)
            out = r.stdout + r.stderr
        except subprocess.TimeoutExpired:
            out = "timeout"
        dt = time.time() - t0
    finally:
        shutil.rmtree(d, ignore_errors=True)
    STATS["queries"] += 1
    STATS["solver_s"] += dt
    first = out.strip().splitlines()[0].strip() if out.strip() else ""
    if "(error" in out and first != "sat":
        # get-value after unsat yields an error line in some solvers; only the verdict line matters then
        if first != "unsat":
            STATS["unknown"] += 1
            return "error", out
    if first in ("sat", "unsat"):
        STATS[first] += 1
        if len(STATS["samples"]) < 2:
            STATS["samples"].append(smt[:1800])
        return first, out
    STATS["unknown"] += 1
    return "unknown", out


def model_values(out, names):
    vals = {}
    for nm in names:
        m = re.search(r"\(\s*%s\s+(\(fp[^)]*\))" % re.escape(nm), out)
        if m:
            try:
                vals[nm] = parse_fp(m.group(1))
            except ValueError:
                pass
    return vals


# ------------------------------------------------------------------ exact helpers (Python side)

def next_up(x):
    import math
    return math.nextafter(x, float("inf"))


def next_down(x):
    import math
    return math.nextafter(x, float("-inf"))


def round_down(fr):
    """largest double <= Fraction fr"""
    x = float(fr)
    if Fraction(x) > fr:
        x = next_down(x)
    return x


def round_up(fr):
    """smallest double >= Fraction fr"""
    x = float(fr)
    if Fraction(x) < fr:
        x = next_up(x)
    return x
